#!/usr/bin/env python3
"""Self-validation of the monitors: apply each planned property-breaking edit (DESIGN.md section 10) to a scratch
worktree of /repo (never to /repo itself) and run the named checks against it through KIO_REPO.

usage: tools/mutants.py [name ...]      (needs: git -C /repo worktree add --detach /tmp/mut HEAD)
"""
from __future__ import annotations

import os
import pathlib
import subprocess
import sys
import time

WT = pathlib.Path(os.environ.get("KV_MUT_WT", "/tmp/mut"))
VERIF = pathlib.Path(__file__).resolve().parent.parent

# name: (properties expected to fire, [(file, old, new)], note)
MUTANTS: dict[str, tuple[list[str], list[tuple[str, str, str]], str]] = {
    "compact-length-bias": (["C02"], [
        ("src/kio/serial/writers.py", "    write_unsigned_varint(buffer, uvarint(len(value) + 1))\n    buffer.write(value)", "    write_unsigned_varint(buffer, uvarint(len(value) + 2))\n    buffer.write(value)"),
        ("src/kio/serial/readers.py", "    length = read_unsigned_varint(buffer) - 1\n    if length == -1:\n        return None\n    return read_exact(buffer, length)",
         "    length = read_unsigned_varint(buffer) - 2\n    if length == -2:\n        return None\n    return read_exact(buffer, length)"),
        ("src/kio/serial/readers.py", "    length = read_unsigned_varint(buffer) - 1\n    if length == -1:\n        raise UnexpectedNull(\n            \"Unexpectedly read null where compact string/bytes was expected\"\n        )",
         "    length = read_unsigned_varint(buffer) - 2\n    if length == -2:\n        raise UnexpectedNull(\n            \"Unexpectedly read null where compact string/bytes was expected\"\n        )"),
    ], "symmetric +2 length bias in compact strings (round trip still works)"),
    "no-tag-sort": (["C02"], [
        ("src/kio/serial/_serialize.py", "        key: tagged_field_writers[key] for key in sorted(tagged_field_writers.keys())", "        key: tagged_field_writers[key] for key in tagged_field_writers.keys()"),
    ], "tagged fields written in declaration order (all shipped classes declare them ascending)"),
    "implicit-default-string": (["C03"], [
        ("src/kio/serial/_implicit_defaults.py", '        str: "",', '        str: "-",'),
    ], "implicit default of an absent tagged string is wrong (only matters for tagged strings without explicit default)"),
    "uuid-plain-read": (["C06"], [
        ("src/kio/serial/readers.py", "    byte_value: bytes = read_exact(buffer, 16)\n    if byte_value == uuid_zero.bytes:", "    byte_value: bytes = buffer.read(16)\n    if byte_value == uuid_zero.bytes or not byte_value:"),
    ], "read_uuid uses a plain read: a stream ending right before a uuid yields None instead of underflow"),
    "writer-uses-tell": (["C07"], [
        ("src/kio/serial/_serialize.py", "            write_unsigned_varint(buffer, uvarint(num_tagged_fields))\n            buffer.write(tag_buffer.getvalue())",
         "            write_unsigned_varint(buffer, uvarint(num_tagged_fields))\n            if tag_buffer.tell():\n                buffer.write(tag_buffer.getvalue())\n            getattr(buffer, \"flush\", lambda: None)()"),
    ], "writer calls flush() on the user's sink when it has one (BytesIO has, a write-only sink records the probe)"),
    "swapped-header-import": (["C08", "C04"], [
        ("src/kio/schema/create_topics/v5/request.py", "from kio.schema.request_header.v2.header import RequestHeader", "from kio.schema.request_header.v1.header import RequestHeader"),
    ], "one generated module imports the wrong header version (class body text unchanged)"),
    "index-entry-retargeted": (["C09", "C04"], [
        ("src/kio/schema/index.py", '"kio.schema.heartbeat.v3.response:HeartbeatResponse"', '"kio.schema.heartbeat.v2.response:HeartbeatResponse"'),
    ], "one index entry points at the neighbouring version"),
    "assert-instead-of-unexpected-null": (["C10"], [
        ("src/kio/serial/readers.py", "    length = read_int32(buffer)\n    if length == -1:\n        raise UnexpectedNull(\"Unexpectedly read null where bytes was expected\")",
         "    length = read_int32(buffer)\n    assert length != -1, \"Unexpectedly read null where bytes was expected\""),
    ], "AssertionError leaks for a null legacy bytes field"),
    "varlong-zigzag-width": (["C11", "C17"], [
        ("src/kio/serial/writers.py", "        value=(value << 1) ^ (value >> 63),", "        value=(value << 1) ^ (value >> 31),"),
    ], "copy-paste slip: signed varlong zig-zag uses the 32-bit shift (wrong only for negative values below -2**31, e.g. large negative timestamp deltas)"),
    "i16-high-bound": (["C12"], [
        ("src/kio/static/primitive.py", "class i16(i32, low=-(2**15), high=2**15 - 1): ...", "class i16(i32, low=-(2**15), high=2**15): ..."),
    ], "i16 accepts 32768"),
    "metadata-kafka-type-edited": (["C13", "C04"], [
        ("src/kio/schema/list_groups/v4/request.py", '        metadata={"kafka_type": "string"}, default=()', '        metadata={"kafka_type": "bytes"}, default=()'),
    ], "one field's kafka_type no longer matches its annotation"),
    "flexible-flipped": (["C14", "C04"], [
        ("src/kio/schema/sasl_authenticate/v2/response.py", "    __flexible__: ClassVar[bool] = True", "    __flexible__: ClassVar[bool] = False"),
    ], "__flexible__ flipped in one version module"),
    "not-frozen": (["C15", "C04"], [
        ("src/kio/schema/end_txn/v3/response.py", "@dataclass(frozen=True, slots=True, kw_only=True)", "@dataclass(slots=True, kw_only=True, unsafe_hash=True)"),
    ], "one class is no longer frozen"),
    "generator-nullable-off-by-one": (["C16"], [
        ("codegen/parser.py", "        return self.nullableVersions.matches(value)\n", "        return self.nullableVersions.matches(value - 1)\n"),
    ], "nullableVersions evaluated for the previous version (struct/array fields)"),
    "batch-length-off": (["C17"], [
        ("src/kio/records/writers.py", "        batch_length=i32(len(post_checksum) + 9),", "        batch_length=i32(len(post_checksum) + 8),"),
        ("src/kio/records/readers.py", "    with io.BytesIO(buffer.read(batch_length)) as batch_buffer:", "    with io.BytesIO(buffer.read(batch_length + 1)) as batch_buffer:"),
        ("src/kio/records/readers.py", "        if crc != crc32c(batch_buffer.read(batch_length - attributes_pos)):", "        if crc != crc32c(batch_buffer.read(batch_length + 1 - attributes_pos)):"),
    ], "symmetric off-by-one in batch length (kio round trip still works)"),
    "crc-skips-attributes": (["C17", "C18"], [
        ("src/kio/records/writers.py", "        crc=u32(crc32c.crc32c(post_checksum)),", "        crc=u32(crc32c.crc32c(post_checksum[2:])),"),
        ("src/kio/records/readers.py", "        crc = read_uint32(batch_buffer)\n        attributes_pos = batch_buffer.tell()\n        if crc != crc32c(batch_buffer.read(batch_length - attributes_pos)):",
         "        crc = read_uint32(batch_buffer)\n        attributes_pos = batch_buffer.tell()\n        batch_buffer.seek(attributes_pos + 2)\n        if crc != crc32c(batch_buffer.read(batch_length - attributes_pos - 2)):"),
    ], "checksum computed from last_offset_delta onward in reader and writer"),
    "shared-tag-buffer": (["C19"], [
        ("src/kio/serial/_serialize.py", "    def write_entity(buffer: Writable, entity: E) -> None:", "    shared_tag_buffer = io.BytesIO()\n\n    def write_entity(buffer: Writable, entity: E) -> None:"),
        ("src/kio/serial/_serialize.py", "        with io.BytesIO() as tag_buffer:\n            # Serialize tagged fields.", "        tag_buffer = shared_tag_buffer\n        tag_buffer.seek(0)\n        tag_buffer.truncate()\n        if True:\n            # Serialize tagged fields."),
    ], "one scratch buffer per writer closure reused across calls (races between threads, stale bytes after a failed call)"),
    "reader-caches-partial-state": (["C19"], [
        ("src/kio/serial/_parse.py", "    def read_entity(buffer: IO[bytes]) -> E:\n        # Read regular fields.\n        kwargs = {",
         "    kwargs: dict = {}\n\n    def read_entity(buffer: IO[bytes]) -> E:\n        # Read regular fields.\n        kwargs.update({"),
        ("src/kio/serial/_parse.py", "            for field, field_reader in field_readers.items()\n        }\n\n        # For non-flexible", "            for field, field_reader in field_readers.items()\n        })\n\n        # For non-flexible"),
    ], "kwargs dict hoisted out of the closure body: shared between threads using the same reader"),
}


def sh(*args: str, **kw) -> subprocess.CompletedProcess:  # noqa: ANN003
    return subprocess.run(args, capture_output=True, text=True, **kw)


def main() -> int:
    names = sys.argv[1:] or list(MUTANTS)
    if not WT.exists():
        print(f"missing scratch worktree {WT}")
        return 2
    rows = []
    for name in names:
        props, edits, note = MUTANTS[name]
        sh("git", "-C", str(WT), "checkout", "-q", "--", ".")
        ok = True
        for rel, old, new in edits:
            p = WT / rel
            s = p.read_text()
            if s.count(old) != 1:
                print(f"[{name}] edit does not apply to {rel} (found {s.count(old)}x)")
                ok = False
                break
            p.write_text(s.replace(old, new))
        if not ok:
            rows.append((name, "EDIT-FAILED", ""))
            continue
        for prop in props:
            t = time.time()
            env = dict(os.environ, KIO_REPO=str(WT))
            r = sh("/venv/bin/python", str(VERIF / "check.py"), prop, "--tier", "quick", env=env)
            last = [ln for ln in r.stdout.splitlines() if ln.startswith(("VIOLATION", "INCONCLUSIVE", prop + ":"))]
            verdict = {0: "MISSED (held)", 1: "caught", 2: "inconclusive"}.get(r.returncode, f"exit {r.returncode}")
            first = next((ln for ln in r.stdout.splitlines() if ln.startswith("  ")), "")
            rows.append((name, f"{prop}: {verdict} in {time.time() - t:.0f}s", first.strip()[:160]))
            print(rows[-1])
    sh("git", "-C", str(WT), "checkout", "-q", "--", ".")
    print("\n".join(f"{a:36s} {b:34s} {c}" for a, b, c in rows))
    return 0


if __name__ == "__main__":
    sys.exit(main())
