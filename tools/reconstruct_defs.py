#!/venv/bin/python
"""One-off provenance tool (never run by a check).

Reconstructs the upstream-format message definitions of Kafka 3.9.0 from the schema package
shipped at the pinned baseline commit (no copy of the upstream JSON exists offline) and the
error-code table from errors.py.  Output: pins/kafka-3.9.0/*.json and pins/error-codes.txt.
The result is accepted only if the *real generator* run on it reproduces the shipped package
class-for-class, which is what check C04 then verifies on every run.
"""
import ast
import collections
import dataclasses
import datetime
import json
import pathlib
import re
import sys

VERIF = pathlib.Path(__file__).resolve().parent.parent
sys.path.insert(0, str(VERIF))
from kv import common, describe, walk  # noqa: E402

OUT = VERIF / "pins" / "kafka-3.9.0"
OUT.mkdir(parents=True, exist_ok=True)
for old in OUT.glob("*.json"):
    old.unlink()

TIMEDELTA = {"timeoutMs", "TimeoutMs", "ThrottleTimeMs", "MaxWaitMs", "SessionLifetimeMs", "TransactionTimeoutMs", "MaxLifetimeMs", "SessionTimeoutMs",
             "RebalanceTimeoutMs", "ExpiryTimePeriodMs", "RenewPeriodMs", "RetentionTimeMs", "HeartbeatIntervalMs", "PushIntervalMs"}
DATETIME = {"IssueTimestampMs", "ExpiryTimestampMs", "MaxTimestampMs", "TransactionStartTimeMs", "LogAppendTimeMs"}
ENTITY_TYPES = {"BrokerId": "brokerId", "GroupId": "groupId", "ProducerId": "producerId", "TopicName": "topicName", "TransactionalId": "transactionalId"}
BACK = {"timedelta_i32": "int32", "timedelta_i64": "int64", "datetime_i64": "int64", "error_code": "int16"}


def camel(snake: str) -> str:
    s = snake[:-1] if snake.endswith("_") else snake
    return "".join(p[:1].upper() + p[1:] for p in s.split("_"))


def rng(vs, last):  # noqa: ANN001, ANN201
    lo, hi = min(vs), max(vs)
    assert sorted(vs) == list(range(lo, hi + 1)), vs
    return f"{lo}+" if hi == last else (f"{lo}" if lo == hi else f"{lo}-{hi}")


def abouts(cls):  # noqa: ANN001, ANN201
    mod = sys.modules[cls.__module__]
    tree = ast.parse(pathlib.Path(mod.__file__).read_text())
    out = {}
    for c in tree.body:
        if isinstance(c, ast.ClassDef) and c.name == cls.__name__:
            prev = None
            for n in c.body:
                if isinstance(n, ast.AnnAssign):
                    prev = n.target.id
                elif isinstance(n, ast.Expr) and isinstance(n.value, ast.Constant) and prev:
                    out[prev] = n.value.value
                    prev = None
    return out


def pydefaults(cls):  # noqa: ANN001, ANN201
    return {f.name: f.default for f in dataclasses.fields(cls)}


def default_json(fs, d):  # noqa: ANN001, ANN201
    if d is dataclasses.MISSING or fs.array:
        return None
    if fs.kind == "struct":
        return "null" if d is None else None
    k = fs.ktype
    if d is None:
        return "-1" if k == "datetime_i64" else "null"
    if k in ("timedelta_i32", "timedelta_i64"):
        return str(d // datetime.timedelta(milliseconds=1))
    if k == "bool":
        return "true" if d else "false"
    if k == "error_code":
        return str(int(d))
    if k == "string":
        return str(d)
    if k == "float64":
        return repr(float(d))
    return str(int(d))


fam = collections.defaultdict(lambda: collections.defaultdict(dict))
for c in walk.classes():
    p = c.__module__.split(".")
    fam[(p[2], p[4])][c.__name__][int(c.__version__)] = c

count = 0
for (api, typ), structs in sorted(fam.items()):
    top_name = next(n for n, vs in structs.items() if next(iter(vs.values())).__type__.name == typ)
    top = structs[top_name]
    versions = sorted(top)
    last = versions[-1]
    flex = [v for v in versions if top[v].__flexible__]
    refcount = collections.Counter()
    for sname, vs in structs.items():
        seen = set()
        for v, c in vs.items():
            for fs in describe.spec_from_class(c).fields:
                if fs.struct is not None:
                    seen.add((sname, fs.name, fs.struct.name))
        for _, _, t in seen:
            refcount[t] += 1
    common_structs = {t for t, n in refcount.items() if n > 1}

    def struct_fields(sname):  # noqa: ANN001, ANN202
        vs = structs[sname]
        order: list[str] = []
        per = collections.defaultdict(dict)
        ab = {}
        for v in sorted(vs):
            spec = describe.spec_from_class(vs[v])
            names = [f.name for f in spec.fields]
            ab.update(abouts(vs[v]))
            for i, n in enumerate(names):
                if n not in order:
                    preds = [m for m in names[:i] if m in order]
                    pos = order.index(preds[-1]) + 1 if preds else 0
                    order.insert(pos, n)
            pd = pydefaults(vs[v])
            for fs in spec.fields:
                per[fs.name][v] = (fs, pd[fs.name])
        out = []
        for n in order:
            m = per[n]
            fs, d = m[max(m)]
            j = {}
            name = camel(n)
            if fs.kind == "prim" and fs.ktype in ("timedelta_i32", "timedelta_i64", "datetime_i64"):
                name += "Ms"
                assert name in (TIMEDELTA if fs.ktype.startswith("timedelta") else DATETIME), name
            j["name"] = name
            j["type"] = ("[]" if fs.array else "") + (fs.struct.name if fs.kind == "struct" else BACK.get(fs.ktype, fs.ktype))
            j["versions"] = rng(list(m), last)
            nv = [v for v, (f, _) in m.items() if f.nullable]
            dj = default_json(fs, d)
            if nv and fs.ktype != "uuid" and not (fs.ktype == "datetime_i64" and dj == "-1"):
                j["nullableVersions"] = rng(nv, last)
            tv = [v for v, (f, _) in m.items() if f.tag is not None]
            if tv:
                j["taggedVersions"] = rng(tv, last)
                j["tag"] = m[tv[0]][0].tag
            if tv and fs.kind == "prim" and fs.ktype == "uuid" and not fs.array and d is None:
                j["ignorable"] = True
                dj = None
            if dj is not None:
                j["default"] = dj
            if fs.kind == "prim" and fs.pytype.__name__ in ENTITY_TYPES:
                j["entityType"] = ENTITY_TYPES[fs.pytype.__name__]
            if n in ab:
                j["about"] = ab[n]
            if fs.kind == "struct" and fs.struct.name not in common_structs:
                j["fields"] = struct_fields(fs.struct.name)
            out.append(j)
        return out

    doc = sys.modules[top[last].__module__].__doc__
    fname = re.search(r"message/(\w+\.json)", doc).group(1)
    d = {}
    if typ in ("request", "response"):
        d["apiKey"] = int(top[last].__api_key__)
    d["type"] = typ
    d["name"] = top_name
    d["validVersions"] = f"{versions[0]}-{versions[-1]}" if len(versions) > 1 else f"{versions[0]}"
    d["flexibleVersions"] = f"{flex[0]}+" if flex else "none"
    d["fields"] = struct_fields(top_name)
    if common_structs:
        d["commonStructs"] = [{"name": t, "versions": rng(list(structs[t]), last), "fields": struct_fields(t)} for t in sorted(common_structs)]
    (OUT / fname).write_text(json.dumps(d, indent=2) + "\n")
    count += 1

# error codes: `code NAME True|False message`, in file order
src = (common.REPO_SRC / "kio" / "schema" / "errors.py").read_text()
tree = ast.parse(src)
lines = []
for node in tree.body:
    if isinstance(node, ast.ClassDef) and node.name == "ErrorCode":
        body = node.body
        for i, n in enumerate(body):
            if isinstance(n, ast.Assign) and isinstance(n.value, ast.Tuple):
                code = ast.literal_eval(n.value.elts[0])
                retriable = ast.literal_eval(n.value.elts[1])
                name = n.targets[0].id.upper()
                msg = ""
                if i + 1 < len(body) and isinstance(body[i + 1], ast.Expr) and isinstance(body[i + 1].value, ast.Constant):
                    msg = body[i + 1].value.value
                lines.append(f"{code} {name} {retriable} {msg if msg else 'NONE'}")
(VERIF / "pins" / "error-codes.txt").write_text("\n".join(lines) + "\n")
print("wrote", count, "definitions and", len(lines), "error codes")
