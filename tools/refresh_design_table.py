#!/usr/bin/env python3
"""Regenerate the seeded-changes table inside DESIGN.md from seeded/*/meta.json."""
import pathlib
import subprocess

root = pathlib.Path(__file__).resolve().parent.parent
p = root / "DESIGN.md"
s = p.read_text()
a, b = "<!-- seeded-table-begin -->\n", "<!-- seeded-table-end -->"
table = subprocess.run(["python3", str(root / "tools" / "seeded_table.py")], capture_output=True, text=True).stdout
i, j = s.index(a) + len(a), s.index(b)
p.write_text(s[:i] + table + s[j:])
print("table rows:", table.count("\n") - 2)
