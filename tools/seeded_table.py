#!/usr/bin/env python3
"""Print the markdown table of seeded changes and which checks caught them (from seeded/*/meta.json)."""
import json
import pathlib

ROOT = pathlib.Path(__file__).resolve().parent.parent / "seeded"
print("| seed | property | change (as described by its author) | needs | checks run against it |")
print("|---|---|---|---|---|")
for d in sorted(x for x in ROOT.iterdir() if (x / "meta.json").exists()):
    m = json.loads((d / "meta.json").read_text())
    ver = m.get("verification", {})
    checks = "; ".join(f"{c}: {v['verdict']} ({v['tier']}, {v['seconds']} s)" for c, v in sorted(ver.get("checks", {}).items()))
    hist = m.get("history")
    if hist:
        checks += " — " + hist
    summary = " ".join(str(m.get("summary", "")).split())[:260]
    needs = " ".join(str(m.get("needs", "")).split())[:220]
    print(f"| {d.name} | {m.get('property')} | {summary} | {needs} | {checks} |")
