#!/usr/bin/env python3
"""Regenerate MANIFEST.json from the table below (keeps commands, levels and notes in one place)."""
import json
import pathlib

VERIF = pathlib.Path(__file__).resolve().parent.parent
PY = "/venv/bin/python"

CHECKS = {
    "C01": ("exploration", "reference-model runtime monitor: generated instances through the real entity_writer/entity_reader, instrumented read-only source",
            "Held on every generated instance of all 1629 classes (each-choice coverage of every field/choice cell + random trees): decode(encode(x)) == x and the "
            "decoder consumed exactly the encoding with foreign bytes following. Runtime evidence over generated inputs, not a proof; symmetric reader/writer mistakes "
            "are C02's business.", "6 C01",
            "CPython 3.12 stdlib; the independent description reader (kv/describe.py) maps trees to instances without going through kio's phantom constructors."),
    "C02": ("exploration", "reference-model runtime monitor: byte-for-byte differential against an independent spec-written Kafka encoder, incl. derived classes with permuted/multi-byte tags",
            "Every generated instance's kio encoding equals the reference encoder's bytes (layout map attributes the first differing byte to a field and role). "
            "Derived clones of shipped classes exercise ascending tag order and 2-5 byte tags.", "6 C02",
            "My reading of the Kafka protocol guide / KIP-482 / KIP-893 as encoded in kv/refcodec.py, self-tested against hand-derived vectors on every run."),
    "C03": ("exploration", "reference-model runtime monitor, wire-first: conforming encodings with explicit defaults and unknown tags at every nesting level fed to the real decoder",
            "Every wire-first conforming encoding (full in-range wire domain, every presence pattern of each class's own tagged fields, unknown tags at every nesting level) "
            "decodes to exactly the wire values.", "6 C03", "Conforming = my reading of KIP-482 (ascending unique tags, size-prefixed)."),
    "C04": ("translation_validation", "translation validation: the real generator is run on pinned definitions in a scratch tree; its output is compared class by class (AST and live objects) with the shipped package",
            "All 186 pinned definitions pushed through the current generator reproduce the shipped schema package class-for-class, plus errors.py, index.py and an independent API table.", "6 C04",
            "Pins were reconstructed from the baseline tree (no network): a pre-existing divergence from upstream 3.9.0 is invisible; everything changing afterwards is visible."),
    "C05": ("exploration", "reference-model runtime monitor, wire-first: canonical encodings biased to lossy-prone values; encode(decode(b)) == b and idempotence",
            "Every canonical wire-first encoding re-encodes to the identical bytes; decode-then-encode is idempotent also on non-canonical conforming input.", "6 C05",
            "Canonical form as defined in DESIGN.md 5.5."),
    "C06": ("fault_enumeration", "fault enumeration: every cut position of generated encodings decoded from a short-reading source under a sys.monitoring step budget",
            "Every strict prefix (all cut positions for encodings <= 512 bytes, layout boundaries + samples beyond) raised exactly BufferUnderflow within the logical step budget.", "6 C06",
            "Step budget 64 + 32/byte stands in for 'never blocks or loops'; wall-clock watchdog firing would be inconclusive."),
    "C07": ("exploration", "history monitor over instrumented and real-OS streams (sockets, pipes, asyncio.StreamWriter): event log + reference bytes + positions",
            "Histories of (header, payload) messages written back to back through five sink kinds and read through four source kinds: bytes, values and positions agree with the reference and only write()/read(n) were used.", "6 C07",
            "CPython's socket.makefile / os.fdopen / asyncio streams behave as documented."),
    "C08": ("exploration", "invariant at a hook (whole schema imported): exhaustive walk of live class objects against an independent restatement of the Kafka header rule",
            "Exhaustive over all request/response classes and all (API, version) pairs.", "6 C08", "The restated ApiMessageTypeGenerator rule."),
    "C09": ("exploration", "invariant at a hook + negative probing: own package walk vs index maps and all load_* functions; near-miss and random lookups must raise the documented errors",
            "Positive half exhaustive (every module <-> every index entry through all seven lookup functions); misses sampled (near-misses for every API + seeded random).", "6 C09",
            "Lookup arguments range over int/str and the five EntityType members."),
    "C10": ("exploration", "runtime monitor under hostile input: structure-aware mutation fuzzing of valid encodings under a sys.monitoring step budget, RLIMIT_AS and an exception allow-list",
            "No malformed input produced an internal error, exceeded the step budget or returned an entity the encoder rejects.", "6 C10",
            "Allow-list and budget as in DESIGN.md 5.6 / 6 C10."),
    "C11": ("exploration", "reference-model runtime monitor over a run-time enumerated table of all 66 public primitive readers/writers",
            "All 66 public functions covered; exhaustive 8/16-bit and small-varint domains, every short byte string as varint input, out-of-domain writes must raise without output.", "6 C11",
            "Reference primitives share no code with kio (own varint, own IEEE-754 encoder, int.to_bytes)."),
    "C12": ("exploration", "runtime monitor: isinstance / constructor / parse of every primitive type against an independent membership predicate, then writer->reader",
            "isinstance, T(v) and T.parse(v) agree with the membership oracle on all probed values; members survive the matching writer/reader. One known finding (D8).", "6 C12",
            "bool-as-int is neither required nor forbidden (consistency only)."),
    "C13": ("exploration", "invariant at a hook: exhaustive coherence table over the live dataclass fields; reader/writer derivation and a reference round trip per class",
            "Exhaustive over 1629 classes x 5094 fields.", "6 C13", "Coherence table in kv/checks/structure.py."),
    "C14": ("exploration", "invariant at a hook: exhaustive family/module coherence over the own package walk + pinned API table",
            "Exhaustive over 666 modules / 186 families.", "6 C14", "pins/api_table.json (reconstructed, cross-checked against known 3.9.0 facts)."),
    "C15": ("exploration", "runtime monitor of value-object semantics on generated and decoder-produced instances (setattr/delattr/eq/hash/copy/replace/pickle)",
            "Every class's options and generated + decoded instances behave as immutable hashable value objects; single-field perturbations compare unequal.", "6 C15", "Python data model."),
    "C16": ("translation_validation", "translation validation over generated programs: mutated pinned and random message definitions through the real generator in scratch trees, compared with an independent interpreter of the definition format and the reference codec",
            "Every definition of the supported subset generated classes that match the independent interpretation field by field and encode to the reference bytes; index lists exactly the generated modules. One known finding (D6).", "6 C16",
            "Supported subset as in DESIGN.md 5.10; own interpreter kv/defs.py."),
    "C17": ("exploration", "reference-model runtime monitor: write_new_batch output vs independent v2 batch encoder/decoder with own CRC-32C",
            "Every generated NewRecordBatch was written byte-identically to the reference encoding (CRC over exactly attributes..end verified).", "6 C17",
            "Reference batch codec self-tested against RFC 3720 vectors and four real-broker batches."),
    "C18": ("fault_enumeration", "fault enumeration: every single-bit flip from the CRC field to the end, all wrong magic bytes, every truncation point of reference-encoded and real-broker batches; identity check with a known-finding-aware oracle",
            "All damaged variants rejected; identity held strictly for whole-second batches and is explained exactly by known finding D4 otherwise.", "6 C18",
            "Single-bit flips exhaustively for batches <= 256 B."),
    "C19": ("exploration", "runtime monitoring with schedule and fault injection: baton scheduler over sys.monitoring LINE events (PCT-style preemption), stream errors at every call index, random creation/use histories incl. fresh interpreters",
            "No history, injected failure position or explored thread schedule changed any result; distinct schedule signatures reported.", "6 C19",
            "Line-granularity interleavings with 1-4 preemptions; finer ones only via the uncontrolled stress run (GIL build)."),
}

ENGINES = [
    ("walk", "kv/walk.py", "own pkgutil walk of kio.schema"),
    ("describe", "kv/describe.py", "independent description reader (dataclass -> neutral spec; tree <-> instance)"),
    ("refcodec", "kv/refcodec.py", "reference Kafka codec with layout map + strict decoder + self-test vectors"),
    ("gen", "kv/gen.py", "seeded tree generator with choice cells and boundary pools"),
    ("streams", "kv/streams.py", "instrumented write-only sink / read-only source"),
    ("steps", "kv/steps.py", "sys.monitoring logical step counter with abort"),
    ("sched", "kv/sched.py", "deterministic baton scheduler over sys.monitoring LINE events"),
    ("recref", "kv/recref.py", "reference record-batch codec + table-driven CRC-32C"),
    ("defs", "kv/defs.py", "definition interpreter, mutators, scratch-tree driver for the real generator"),
    ("shard", "kv/shard.py", "subprocess sharding"),
    ("findings", "kv/findings.py", "known-findings lookup"),
]


def main() -> None:
    built = [p for p in sorted(CHECKS) if (VERIF / "kv" / "checks").exists() and _built(p)]
    m = {
        "version": 1,
        "setup_cmd": f"cd /verif && {PY} -c \"import sys; sys.path.insert(0, '/verif'); from kv import refcodec, recref; e = refcodec.self_test() + recref.self_test(); print('self-test', e); sys.exit(1 if e else 0)\"",
        "hooks": {
            "guard": "KIO_VERIF",
            "enable": "no source hooks exist: every monitor observes at the public boundary (sinks/sources, return values, live class objects, generator output) or through sys.monitoring; checks export KIO_VERIF=1 anyway",
            "baseline_off_cmd": "cd /repo && env -u KIO_VERIF /venv/bin/python -m pytest -ra -q -p no:cacheprovider --timeout=900 --continue-on-collection-errors",
            "source_commits": [],
            "add_only": True,
        },
        "engines": [{"name": n, "path": p, "kind_free_text": k, "serves_properties": []} for n, p, k in ENGINES if (VERIF / p).exists()],
        "checks": [],
        "notes": "All checks: /venv/bin/python check.py <id> [--tier quick|thorough] [--replay path]; exit 0 held / 1 violation / 2 inconclusive. "
                 "Genuine defects repaired in /repo as 'fix:' commits and the remaining known findings are listed in known_findings.json (see DESIGN.md).",
        "not_applicable": [],
    }
    for p in sorted(CHECKS):
        level, technique, text, ref, note = CHECKS[p]
        if p not in built:
            m["not_applicable"].append({"property_id": p, "reason": "check not built yet in this round (planned, see DESIGN.md " + ref + ")"})
            continue
        m["checks"].append({
            "property_id": p,
            "quick_cmd": f"{PY} check.py {p} --tier quick",
            "thorough_cmd": f"{PY} check.py {p} --tier thorough",
            "evidence_file": f"/verif/evidence/{p}.json",
            "replay_cmd_template": f"{PY} check.py {p} --replay {{path}}",
            "engine": "kv",
            "level_claimed": {"category": level, "text": text, "design_ref": "DESIGN.md section " + ref},
            "level_note": note,
            "technique": technique,
        })
    (VERIF / "MANIFEST.json").write_text(json.dumps(m, indent=1) + "\n")
    print("checks:", [c["property_id"] for c in m["checks"]], "n/a:", [c["property_id"] for c in m["not_applicable"]])


def _built(p: str) -> bool:
    src = (VERIF / "check.py").read_text()
    return f'"{p}":' in src


if __name__ == "__main__":
    main()
