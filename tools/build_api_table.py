#!/venv/bin/python
"""One-off provenance tool (never run by a check): write pins/api_table.json from the schema
package at the pinned baseline commit and cross-check it against facts known about Kafka 3.9.0."""
import json
import pathlib
import sys

sys.path.insert(0, str(pathlib.Path(__file__).resolve().parent.parent))
from kv import walk  # noqa: E402

table = {}
for (api, typ), ms in sorted(walk.families().items()):
    ms = sorted(ms, key=lambda m: m.version)
    tops = [walk.top_level(m)[0] for m in ms]
    flex = [m.version for m, t in zip(ms, tops) if t.__flexible__]
    table[f"{api}:{typ}"] = {
        "min": ms[0].version, "max": ms[-1].version, "first_flexible": flex[0] if flex else None,
        "api_key": int(tops[0].__api_key__) if typ in ("request", "response") else None,
        "name": tops[-1].__name__,
    }
known = {  # (key, min, max, first flexible) as published for Apache Kafka 3.9.0
    "produce": (0, 0, 11, 9), "fetch": (1, 0, 17, 12), "list_offsets": (2, 0, 9, 6), "metadata": (3, 0, 12, 9), "leader_and_isr": (4, 0, 7, 4),
    "stop_replica": (5, 0, 4, 2), "update_metadata": (6, 0, 8, 6), "controlled_shutdown": (7, 0, 3, 3), "offset_commit": (8, 0, 9, 8),
    "offset_fetch": (9, 0, 9, 6), "find_coordinator": (10, 0, 6, 3), "join_group": (11, 0, 9, 6), "heartbeat": (12, 0, 4, 4),
    "leave_group": (13, 0, 5, 4), "sync_group": (14, 0, 5, 4), "describe_groups": (15, 0, 5, 5), "list_groups": (16, 0, 5, 3),
    "sasl_handshake": (17, 0, 1, None), "api_versions": (18, 0, 4, 3), "create_topics": (19, 0, 7, 5), "delete_topics": (20, 0, 6, 4),
    "offset_delete": (47, 0, 0, None), "sasl_authenticate": (36, 0, 2, 2), "init_producer_id": (22, 0, 5, 2),
}
bad = []
for api, (key, lo, hi, ff) in known.items():
    for typ in ("request", "response"):
        e = table.get(f"{api}:{typ}")
        if e is None or (e["api_key"], e["min"], e["max"], e["first_flexible"]) != (key, lo, hi, ff):
            bad.append((api, typ, e))
keys = sorted({e["api_key"] for e in table.values() if e["api_key"] is not None})
print("families", len(table), "keys", len(keys), keys[0], keys[-1], "cross-check failures", bad)
out = pathlib.Path(__file__).resolve().parent.parent / "pins" / "api_table.json"
out.write_text(json.dumps(table, indent=1, sort_keys=True) + "\n")
