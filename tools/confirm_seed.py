#!/usr/bin/env python3
"""Confirm a seeded change produced by an independent sub-agent and record it under /verif/seeded/<id>/.

usage: tools/confirm_seed.py <seed-id> <dir with patch.diff demo.py meta.json> <property> [check ...] [--tier thorough]

Everything happens in the scratch worktree /tmp/mut (never in /repo): the demonstration must pass on the clean tree and fail
with the patch, the unedited test suite must still report 2202 passed with the patch, then the named checks (default: the
property's own) are run against the patched tree through KIO_REPO and their verdicts recorded in meta.json.
"""
from __future__ import annotations

import json
import os
import pathlib
import shutil
import subprocess
import sys
import time

WT = pathlib.Path(os.environ.get("KV_MUT_WT", "/tmp/mut"))
VERIF = pathlib.Path(__file__).resolve().parent.parent
PY = "/venv/bin/python"


def sh(cmd: list[str], **kw) -> subprocess.CompletedProcess:  # noqa: ANN003
    return subprocess.run(cmd, capture_output=True, text=True, **kw)


def main() -> int:
    args = [a for a in sys.argv[1:] if not a.startswith("--")]
    tier = "thorough" if "--thorough" in sys.argv else "quick"
    skip_tests = "--skip-tests" in sys.argv
    sid, src, prop = args[0], pathlib.Path(args[1]), args[2]
    checks = args[3:] or [prop]
    env = dict(os.environ, PYTHONPATH=str(WT / "src") + os.pathsep + str(WT), KIO_REPO=str(WT))
    sh(["git", "-C", str(WT), "checkout", "-q", "--", "."])
    sh(["git", "-C", str(WT), "clean", "-fdq", "--", "src", "codegen"])
    record: dict = {"confirmed_at": time.strftime("%Y-%m-%d %H:%M:%S"), "base_commit": sh(["git", "-C", str(WT), "rev-parse", "--short", "HEAD"]).stdout.strip()}
    demo = src / "demo.py"
    # the demonstration is run where it was written (it may import that worktree's codegen/ through __file__)
    in_place = (src / ".git").exists()
    if in_place:
        # run the demonstration where it was written: the sub-agent's worktree, with its change stashed and then restored
        env_src = dict(os.environ, PYTHONPATH=str(src / "src"))
        if "--stash" not in sys.argv:
            # default: reverse-apply the patch (git stash is shared by all worktrees of one repository: concurrent sub-agents that stash/pop
            # can swap each other's changes)
            # for patches that add files (git stash would leave them behind)
            sh(["git", "-C", str(src), "apply", "-R", str(src / "patch.diff")])
            try:
                r0 = sh([PY, str(demo)], env=env_src, cwd=str(src), timeout=900)
            finally:
                sh(["git", "-C", str(src), "apply", str(src / "patch.diff")])
        else:
            st = sh(["git", "-C", str(src), "stash"])
            try:
                r0 = sh([PY, str(demo)], env=env_src, cwd=str(src), timeout=900)
            finally:
                if "No local changes" not in st.stdout:
                    sh(["git", "-C", str(src), "stash", "pop"])
        r1 = sh([PY, str(demo)], env=env_src, cwd=str(src), timeout=900)
        record["demo_run_in"] = str(src)
    else:
        r0 = sh([PY, str(demo)], env=env, cwd=str(WT), timeout=600)
    record["demo_on_clean_tree"] = {"exit": r0.returncode, "tail": (r0.stdout + r0.stderr)[-300:]}
    a = sh(["git", "-C", str(WT), "apply", "--3way", str(src / "patch.diff")])  # the scratch tree may be newer than the patch's base
    sh(["git", "-C", str(WT), "reset", "-q"])
    if a.returncode != 0:
        print("patch does not apply:", a.stderr)
        return 2
    record["files_changed"] = sh(["git", "-C", str(WT), "diff", "--stat"]).stdout.strip().splitlines()
    if not in_place:
        r1 = sh([PY, str(demo)], env=env, cwd=str(WT), timeout=600)
    record["demo_with_patch"] = {"exit": r1.returncode, "tail": (r1.stdout + r1.stderr)[-400:]}
    if not skip_tests:
        t = sh([PY, "-m", "pytest", "-q", "-p", "no:cacheprovider", "-k", "not _java", "-n", "8", "--ignore=tests/test_integration.py"], env=env, cwd=str(WT), timeout=1800)
        record["test_suite_with_patch"] = (t.stdout.strip().splitlines() or ["?"])[-1]
    verdicts = {}
    for c in checks:
        t0 = time.time()
        r = sh([PY, str(VERIF / "check.py"), c, "--tier", tier], env=dict(os.environ, KIO_REPO=str(WT)), timeout=7200)
        first = next((ln.strip() for ln in r.stdout.splitlines() if ln.startswith("  ")), "")
        verdicts[c] = {"exit": r.returncode, "verdict": {0: "missed (held)", 1: "caught", 2: "inconclusive"}.get(r.returncode, "?"), "tier": tier,
                       "seconds": round(time.time() - t0, 1), "first_violation": first[:400]}
        print(c, verdicts[c])
    record["checks"] = verdicts
    sh(["git", "-C", str(WT), "checkout", "-q", "--", "."])
    sh(["git", "-C", str(WT), "clean", "-fdq", "--", "src", "codegen"])
    ok = r0.returncode == 0 and r1.returncode != 0 and (skip_tests or "2202 passed" in record.get("test_suite_with_patch", ""))
    record["confirmed"] = ok
    print(json.dumps({k: v for k, v in record.items() if k != "checks"}, indent=1))
    if not ok:
        print("NOT CONFIRMED - nothing recorded")
        return 1
    out = VERIF / "seeded" / sid
    out.mkdir(parents=True, exist_ok=True)
    shutil.copy(src / "patch.diff", out / "patch.diff")
    shutil.copy(demo, out / "demo.py")
    meta = {}
    if (src / "meta.json").exists():
        try:
            meta = json.loads((src / "meta.json").read_text())
        except json.JSONDecodeError:
            meta = {"raw": (src / "meta.json").read_text()[:2000]}
    if (out / "meta.json").exists():
        old = json.loads((out / "meta.json").read_text())
        prev = old.get("verification", {}).get("checks", {})
        prev.update(record["checks"])
        record["checks"] = prev
    meta["property"] = prop
    meta["verification"] = record
    (out / "meta.json").write_text(json.dumps(meta, indent=1) + "\n")
    print("recorded in", out)
    return 0


if __name__ == "__main__":
    sys.exit(main())
