#!/venv/bin/python
"""Entry point: python3 check.py <Cxx> [--tier quick|thorough] [--replay <path>]

Exit 0 = held on everything explored (KNOWN-FINDING lines allowed), 1 = violation
(VIOLATION property=<id> replay=<path>), 2 = inconclusive.
"""
from __future__ import annotations

import argparse
import importlib
import os
import sys

HERE = os.path.dirname(os.path.abspath(__file__))
VENV_PY = "/venv/bin/python"

if os.path.realpath(sys.executable) != os.path.realpath(VENV_PY) and os.path.exists(VENV_PY) \
        and os.environ.get("KV_REEXEC") != "1":
    os.environ["KV_REEXEC"] = "1"
    os.execv(VENV_PY, [VENV_PY, os.path.abspath(__file__)] + sys.argv[1:])

sys.path.insert(0, HERE)
os.environ.setdefault("PYTHONHASHSEED", "0")

CHECKS = {
    "C01": ("kv.checks.codec", "C01"),
    "C02": ("kv.checks.codec", "C02"),
    "C03": ("kv.checks.codec", "C03"),
    "C04": ("kv.checks.shipped", "C04"),
    "C05": ("kv.checks.codec", "C05"),
    "C06": ("kv.checks.faults", "C06"),
    "C10": ("kv.checks.faults", "C10"),
    "C07": ("kv.checks.stream", "C07"),
    "C08": ("kv.checks.structure", "C08"),
    "C09": ("kv.checks.structure", "C09"),
    "C11": ("kv.checks.prims", "C11"),
    "C12": ("kv.checks.types", "C12"),
    "C13": ("kv.checks.structure", "C13"),
    "C15": ("kv.checks.values", "C15"),
    "C16": ("kv.checks.generator", "C16"),
    "C17": ("kv.checks.records", "C17"),
    "C18": ("kv.checks.records", "C18"),
    "C19": ("kv.checks.state", "C19"),
    "C14": ("kv.checks.structure", "C14"),
}


def main() -> int:
    ap = argparse.ArgumentParser()
    ap.add_argument("prop")
    ap.add_argument("--tier", choices=("quick", "thorough"), default=None)
    ap.add_argument("--replay", default=None)
    a = ap.parse_args()
    from kv import common

    t = a.tier or common.tier()
    os.environ["VERIF_TIER"] = t
    if a.prop not in CHECKS:
        print(f"unknown property {a.prop}; known: {sorted(CHECKS)}")
        return 2
    modname, arg = CHECKS[a.prop]
    mod = importlib.import_module(modname)
    if a.replay:
        return mod.replay(arg, a.replay)
    return mod.run(arg, t)


if __name__ == "__main__":
    sys.exit(main())
