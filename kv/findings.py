"""Known findings: genuine defects of kio that are recorded rather than repaired.

``known_findings.json`` is committed and never written at run time.  A failing case is
attributed to a finding only by the check that knows the *mechanism* (trigger predicate +
adjusted oracle, see the check's code and DESIGN.md section 7); this module only answers
"is finding X listed as known for property P".  ``fixed`` entries suppress nothing.
"""
from __future__ import annotations

import json

from . import common

_cache: dict | None = None


def _load() -> dict:
    global _cache
    if _cache is None:
        p = common.VERIF / "known_findings.json"
        _cache = json.loads(p.read_text()) if p.exists() else {"findings": [], "fixed": []}
    return _cache


def is_known(prop: str, fid: str) -> bool:
    for f in _load().get("findings", []):
        if f.get("id") == fid and f.get("status") == "known" and prop in f.get("properties", []):
            return True
    return False


def summary(fid: str) -> str:
    for f in _load().get("findings", []):
        if f.get("id") == fid:
            return f.get("summary", "")
    return ""
