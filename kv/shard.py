"""Run a check as N subprocess workers (never multiprocessing.Pool: a dying child hangs it).

Each worker is ``python -m kv.shard <module:function> <prop> <tier> <i> <n> <out.json>``; the
function gets ``(result: Result, i: int, n: int)`` and fills the result.  The parent merges the
wire results.  A worker that dies, times out or writes nothing makes the run inconclusive.
"""
from __future__ import annotations

import importlib
import json
import os
import shutil
import subprocess
import sys
import tempfile
import time
import traceback

from . import common
from .common import Result

NCPU = min(16, os.cpu_count() or 4)
# The workers run under different process-local time zones (TZ): nothing kio does with timestamps may depend on where the process thinks
# it is (naive datetimes, time.mktime, datetime.fromtimestamp without a zone do).  Half-hour, 45-minute, DST and far-east/west zones.
PROCESS_TIME_ZONES = ("UTC", "America/St_Johns", "Asia/Kolkata", "Pacific/Chatham", "Europe/Berlin", "America/New_York", "Asia/Kathmandu", "Pacific/Kiritimati")


def run(result: Result, target: str, nshards: int | None = None, timeout: float = 3600.0,
        extra_env: dict[str, str] | None = None) -> None:
    n = nshards or NCPU
    tmp = tempfile.mkdtemp(prefix="kv-shard-")
    env = dict(os.environ)
    env["PYTHONHASHSEED"] = "0"
    env["VERIF_SEED"] = str(result.seed)
    env["VERIF_TIER"] = result.tier
    env["PYTHONPATH"] = str(common.VERIF) + os.pathsep + env.get("PYTHONPATH", "")
    env.update(extra_env or {})
    procs = []
    try:
        zones_used: dict[str, int] = {}
        for i in range(n):
            out = os.path.join(tmp, f"w{i}.json")
            log = open(os.path.join(tmp, f"w{i}.log"), "wb")
            tz = PROCESS_TIME_ZONES[(i + result.seed) % len(PROCESS_TIME_ZONES)]
            zones_used[tz] = zones_used.get(tz, 0) + 1
            p = subprocess.Popen(
                [sys.executable, "-X", "faulthandler", "-W", "error::ResourceWarning", "-m", "kv.shard",
                 target, result.prop, result.tier, str(i), str(n), out],
                cwd=str(common.VERIF), env=dict(env, TZ=tz), stdout=log, stderr=subprocess.STDOUT,
            )
            procs.append((i, p, out, log))
        deadline = time.time() + timeout
        for i, p, out, log in procs:
            left = max(1.0, deadline - time.time())
            try:
                rc = p.wait(timeout=left)
            except subprocess.TimeoutExpired:
                p.kill()
                p.wait()
                result.inconclusive_because(f"worker {i}/{n} exceeded the {timeout:.0f}s watchdog")
                continue
            finally:
                log.close()
            if rc != 0 or not os.path.exists(out):
                tail = open(os.path.join(tmp, f"w{i}.log"), "rb").read()[-1500:].decode("utf-8", "replace")
                result.inconclusive_because(f"worker {i}/{n} exited {rc} without a result: {tail!r}")
                continue
            with open(out) as fh:
                result.merge_wire(json.load(fh))
        result.coverage["worker_process_time_zones"] = zones_used
    finally:
        for _, p, _, _ in procs:
            if p.poll() is None:
                p.kill()
        shutil.rmtree(tmp, ignore_errors=True)


def _main(argv: list[str]) -> int:
    target, prop, tier_, i, n, out = argv
    modname, _, fn = target.partition(":")
    res = Result(prop, "exploration", tier_)
    try:
        func = getattr(importlib.import_module(modname), fn)
        func(res, int(i), int(n))
    except BaseException:  # noqa: BLE001
        res.inconclusive_because("worker crashed: " + traceback.format_exc()[-1500:])
    tmp = out + ".tmp"
    with open(tmp, "w") as fh:
        json.dump(res.to_wire(), fh)
    os.replace(tmp, out)
    return 0


if __name__ == "__main__":
    sys.exit(_main(sys.argv[1:]))
