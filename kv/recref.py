"""Reference Kafka record-batch (magic 2) codec and table-driven CRC-32C.

Written from the message-format documentation (KIP-98).  Never imports kio.records nor the
``crc32c`` extension kio links against.

Neutral batch model (dict):
  base_offset, partition_leader_epoch, attributes, last_offset_delta, base_timestamp,
  max_timestamp, producer_id, producer_epoch, base_sequence,
  records: [ {attributes, timestamp_delta, offset_delta, key, value, headers: [(key, value)]} ]
``encode_batch`` derives batch_length and crc unless overridden.
"""
from __future__ import annotations

import json

from . import common
from .refcodec import svarint, svarlong, unzigzag, read_uvarint

_POLY = 0x82F63B78
_TABLE = []
for _i in range(256):
    _c = _i
    for _ in range(8):
        _c = (_c >> 1) ^ _POLY if _c & 1 else _c >> 1
    _TABLE.append(_c)


def crc32c(data: bytes) -> int:
    c = 0xFFFFFFFF
    for b in data:
        c = _TABLE[(c ^ b) & 0xFF] ^ (c >> 8)
    return c ^ 0xFFFFFFFF


class BadBatch(Exception):
    pass


def _opt_bytes(v: bytes | None) -> bytes:
    return svarint(-1) if v is None else svarint(len(v)) + v


def encode_record(rec: dict) -> bytes:
    body = bytearray()
    body += int(rec["attributes"]).to_bytes(1, "big", signed=True)
    body += svarlong(rec["timestamp_delta"])
    body += svarint(rec["offset_delta"])
    body += _opt_bytes(rec["key"])
    body += _opt_bytes(rec["value"])
    body += svarint(len(rec["headers"]))
    for k, v in rec["headers"]:
        body += _opt_bytes(k)
        body += _opt_bytes(v)
    return svarint(len(body)) + bytes(body)


def encode_batch(b: dict, crc: int | None = None, batch_length: int | None = None, magic: int = 2) -> bytes:
    post = bytearray()
    post += int(b["attributes"]).to_bytes(2, "big", signed=True)
    post += int(b["last_offset_delta"]).to_bytes(4, "big", signed=True)
    post += int(b["base_timestamp"]).to_bytes(8, "big", signed=True)
    post += int(b["max_timestamp"]).to_bytes(8, "big", signed=True)
    post += int(b["producer_id"]).to_bytes(8, "big", signed=True)
    post += int(b["producer_epoch"]).to_bytes(2, "big", signed=True)
    post += int(b["base_sequence"]).to_bytes(4, "big", signed=True)
    post += len(b["records"]).to_bytes(4, "big", signed=True)
    for rec in b["records"]:
        post += encode_record(rec)
    out = bytearray()
    out += int(b["base_offset"]).to_bytes(8, "big", signed=True)
    out += (len(post) + 9 if batch_length is None else batch_length).to_bytes(4, "big", signed=True)
    out += int(b["partition_leader_epoch"]).to_bytes(4, "big", signed=True)
    out += magic.to_bytes(1, "big", signed=True)
    out += (crc32c(bytes(post)) if crc is None else crc).to_bytes(4, "big")
    out += post
    return bytes(out)


class _Cur:
    def __init__(self, data: bytes, pos: int = 0, end: int | None = None) -> None:
        self.data, self.pos, self.end = data, pos, len(data) if end is None else end

    def take(self, n: int) -> bytes:
        if n < 0 or self.pos + n > self.end:
            raise BadBatch("truncated")
        out = self.data[self.pos:self.pos + n]
        self.pos += n
        return out

    def i(self, n: int, signed: bool = True) -> int:
        return int.from_bytes(self.take(n), "big", signed=signed)

    def varint(self, maxb: int = 5) -> int:
        try:
            v, p = read_uvarint(self.data[:self.end], self.pos, maxb)
        except (EOFError, ValueError) as exc:
            raise BadBatch(str(exc)) from exc
        self.pos = p
        return unzigzag(v)

    def opt(self) -> bytes | None:
        n = self.varint()
        if n == -1:
            return None
        if n < 0:
            raise BadBatch("negative length")
        return self.take(n)


def decode_batch(data: bytes, pos: int = 0, lenient_header_keys: bool = False) -> tuple[dict, int]:
    """Strict decode of one batch at pos; returns (batch, end position)."""
    c = _Cur(data, pos)
    b: dict = {}
    b["base_offset"] = c.i(8)
    b["batch_length"] = c.i(4)
    end = c.pos + b["batch_length"]
    if b["batch_length"] < 49 or end > len(data):
        raise BadBatch(f"batch length {b['batch_length']} does not fit")
    c.end = end
    b["partition_leader_epoch"] = c.i(4)
    b["magic"] = c.i(1)
    if b["magic"] != 2:
        raise BadBatch(f"magic {b['magic']}")
    b["crc"] = c.i(4, signed=False)
    b["crc_ok"] = crc32c(data[c.pos:end]) == b["crc"]
    b["attributes"] = c.i(2)
    b["last_offset_delta"] = c.i(4)
    b["base_timestamp"] = c.i(8)
    b["max_timestamp"] = c.i(8)
    b["producer_id"] = c.i(8)
    b["producer_epoch"] = c.i(2)
    b["base_sequence"] = c.i(4)
    n = c.i(4)
    if n < 0:
        raise BadBatch("negative record count")
    recs = []
    for _ in range(n):
        ln = c.varint()
        if ln < 0:
            raise BadBatch("negative record length")
        rend = c.pos + ln
        if rend > end:
            raise BadBatch("record overruns batch")
        rc = _Cur(data, c.pos, rend)
        rec = {"attributes": rc.i(1), "timestamp_delta": rc.varint(10), "offset_delta": rc.varint(), "key": rc.opt(), "value": rc.opt()}
        hn = rc.varint()
        if hn < 0:
            raise BadBatch("negative header count")
        rec["headers"] = [(rc.opt(), rc.opt()) for _ in range(hn)]
        if not lenient_header_keys and any(hk is None for hk, _ in rec["headers"]):
            raise BadBatch("negative header key length (header keys are not nullable)")
        if rc.pos != rend:
            raise BadBatch("record length does not match its content")
        recs.append(rec)
        c.pos = rend
    if c.pos != end:
        raise BadBatch("batch length does not match its content")
    b["records"] = recs
    return b, end


def fixtures() -> list[bytes]:
    doc = json.loads((common.VERIF / "pins" / "record_fixtures.json").read_text())
    return [bytes.fromhex(h) for h in doc["batches"]]


def self_test() -> list[str]:
    errs = []
    # RFC 3720 B.4 test vectors
    for data, want in ((b"\x00" * 32, 0x8A9136AA), (b"\xff" * 32, 0x62A8AB43), (bytes(range(32)), 0x46DD794E), (bytes(range(31, -1, -1)), 0x113FDB5C),
                       (b"123456789", 0xE3069283), (b"", 0)):
        if crc32c(data) != want:
            errs.append(f"crc32c vector {data[:4].hex()}: {crc32c(data):#x} != {want:#x}")
    try:
        fx = fixtures()
        for k, raw in enumerate(fx):
            b, end = decode_batch(raw)
            if end != len(raw) or not b["crc_ok"]:
                errs.append(f"fixture {k}: end={end} crc_ok={b['crc_ok']}")
            if encode_batch(b) != raw:
                errs.append(f"fixture {k}: reference re-encoding differs")
        b0, _ = decode_batch(fx[0])
        if (b0["base_timestamp"], b0["records"][0]["value"], b0["batch_length"], b0["crc"]) != (1503229838908, b"123", 59, 51946096):
            errs.append("fixture 0 decoded wrongly")
        b3, _ = decode_batch(fx[3])
        if b3["records"][0]["headers"] != [(b"hkey", b"hval")]:
            errs.append("fixture 3 headers decoded wrongly")
    except Exception as exc:  # noqa: BLE001
        errs.append(f"fixtures: {exc!r}")
    return errs
