"""Independent description reader.

Turns a live kio dataclass into a neutral ``StructSpec`` using only ``dataclasses.fields``,
the annotation objects and ``field.metadata``.  Shares no code with kio.serial._introspect
(it does not import it).  The neutral value domain ("tree") is:

  ints, bool, float, str, bytes, None, list (arrays), dict (structs);
  durations and timestamps as integer milliseconds, UUIDs as 16 raw bytes (None = null),
  error codes as ints.
"""
from __future__ import annotations

import dataclasses
import datetime
import types
import typing
import uuid as _uuid

MISSING = dataclasses.MISSING
UTC = datetime.timezone.utc
EPOCH = datetime.datetime(1970, 1, 1, tzinfo=UTC)
MS = datetime.timedelta(milliseconds=1)

KTYPES = (
    "int8", "int16", "int32", "int64", "uint8", "uint16", "uint32", "uint64", "float64", "bool",
    "string", "bytes", "records", "uuid", "error_code", "timedelta_i32", "timedelta_i64", "datetime_i64",
)
NULLABLE_KTYPES = ("string", "bytes", "records", "uuid", "datetime_i64")


INSTANCE_TZ: datetime.tzinfo | None = None  # when set, tree_to_instance expresses timestamps in this zone (the instant is unchanged)


class DescribeError(Exception):
    pass


class NoDefault:
    def __repr__(self) -> str:
        return "<no default>"


NO_DEFAULT = NoDefault()


@dataclasses.dataclass
class FieldSpec:
    name: str
    kind: str  # "prim" | "struct"
    ktype: str | None  # kafka type name for prim
    nullable: bool  # the field itself may be null (array null, value null, struct null)
    array: bool
    item_nullable: bool
    tag: int | None
    default: object  # neutral tree of the *declared* default, or NO_DEFAULT
    struct: "StructSpec | None"
    pytype: object = None  # declared python leaf type (shipped classes only)
    legacy_string: bool = False  # RequestHeader.client_id
    nullable_optional: bool = False  # expectations only: the class may or may not be annotated `| None`

    def effective_default(self) -> object:
        """Declared default, else the protocol's implicit default for the type."""
        if self.default is not NO_DEFAULT:
            return self.default
        return implicit_default(self)


@dataclasses.dataclass
class StructSpec:
    name: str
    flexible: bool
    fields: list[FieldSpec]
    cls: type | None = None  # python class (shipped or generated), None for pure-definition specs
    version: int | None = None

    def field(self, name: str) -> FieldSpec:
        for f in self.fields:
            if f.name == name:
                return f
        raise KeyError(name)

    @property
    def tagged(self) -> list[FieldSpec]:
        return [f for f in self.fields if f.tag is not None]


def implicit_default(fs: FieldSpec) -> object:
    if fs.array:
        return []
    if fs.kind == "struct":
        if fs.nullable:
            return None
        assert fs.struct is not None
        return {g.name: g.effective_default() for g in fs.struct.fields}
    k = fs.ktype
    if k == "string":
        return None if fs.nullable else ""
    if k in ("bytes", "records"):
        return None if fs.nullable else b""
    if k == "uuid":
        return None
    if k == "bool":
        return False
    if k == "float64":
        return 0.0
    if k == "datetime_i64":
        return None if fs.nullable else 0
    return 0


_spec_cache: dict[type, StructSpec] = {}


def _strip_optional(t: object) -> tuple[object, bool]:
    origin = typing.get_origin(t)
    if origin is types.UnionType or origin is typing.Union:
        args = typing.get_args(t)
        rest = [a for a in args if a is not type(None)]
        if len(rest) != 1 or len(rest) == len(args):
            raise DescribeError(f"unsupported union {t!r}")
        return rest[0], True
    return t, False


def spec_from_class(cls: type) -> StructSpec:
    if cls in _spec_cache:
        return _spec_cache[cls]
    if not dataclasses.is_dataclass(cls):
        raise DescribeError(f"{cls!r} is not a dataclass")
    spec = StructSpec(
        name=cls.__name__,
        flexible=bool(cls.__flexible__),
        fields=[],
        cls=cls,
        version=int(cls.__version__),
    )
    _spec_cache[cls] = spec
    try:
        _fill_spec(spec, cls)
    except BaseException:
        _spec_cache.pop(cls, None)  # never leave a half-built spec behind
        raise
    return spec


def _fill_spec(spec: StructSpec, cls: type) -> None:
    for f in dataclasses.fields(cls):
        t, nullable = _strip_optional(f.type)
        array = False
        item_nullable = False
        if typing.get_origin(t) is tuple:
            args = typing.get_args(t)
            if len(args) != 2 or args[1] is not Ellipsis:
                raise DescribeError(f"{cls.__name__}.{f.name}: tuple args {args!r}")
            array = True
            t, item_nullable = _strip_optional(args[0])
        elif typing.get_origin(t) is not None:
            raise DescribeError(f"{cls.__name__}.{f.name}: unsupported annotation {f.type!r}")
        if not isinstance(t, type):
            raise DescribeError(f"{cls.__name__}.{f.name}: annotation leaf {t!r} is not a class")
        tag = f.metadata.get("tag")
        if dataclasses.is_dataclass(t):
            fs = FieldSpec(f.name, "struct", None, nullable, array, item_nullable, tag, NO_DEFAULT, spec_from_class(t), t)
        else:
            k = f.metadata.get("kafka_type")
            if k not in KTYPES:
                raise DescribeError(f"{cls.__name__}.{f.name}: kafka_type {k!r}")
            fs = FieldSpec(f.name, "prim", k, nullable, array, item_nullable, tag, NO_DEFAULT, None, t)
            if cls.__name__ == "RequestHeader" and f.name == "client_id":
                fs.legacy_string = True
        if f.default is not MISSING:
            fs.default = value_to_tree(fs, f.default)
        elif f.default_factory is not MISSING:
            raise DescribeError(f"{cls.__name__}.{f.name}: default_factory")
        spec.fields.append(fs)


# ---------------------------------------------------------------------------------------
# python value <-> neutral tree (exact arithmetic)


def _short(x: object) -> str:
    r = repr(x)
    return r if len(r) <= 80 else r[:80] + ".."


class Inexact(Exception):
    """A python value that has no exact neutral representation (sub-millisecond etc.)."""


def _leaf_to_tree(fs: FieldSpec, x: object) -> object:
    if x is None:
        return None
    if fs.kind == "struct":
        return instance_to_tree(fs.struct, x)
    k = fs.ktype
    if k in ("timedelta_i32", "timedelta_i64"):
        if not isinstance(x, datetime.timedelta):
            raise Inexact(f"{fs.name}: {_short(x)} is not a timedelta")
        q, r = divmod(x, MS)
        if r:
            raise Inexact(f"{fs.name}: {_short(x)} is not whole milliseconds")
        return q
    if k == "datetime_i64":
        if not isinstance(x, datetime.datetime) or x.tzinfo is None:
            raise Inexact(f"{fs.name}: {_short(x)} is not an aware datetime")
        q, r = divmod(x - EPOCH, MS)
        if r:
            raise Inexact(f"{fs.name}: {_short(x)} is not whole milliseconds")
        return q
    if k == "uuid":
        if not isinstance(x, _uuid.UUID):
            raise Inexact(f"{fs.name}: {_short(x)} is not a UUID")
        return x.bytes
    if k == "error_code":
        return int(x)
    if k == "bool":
        if not isinstance(x, bool):
            raise Inexact(f"{fs.name}: {_short(x)} is not a bool")
        return x
    if k == "float64":
        if isinstance(x, int) and not isinstance(x, bool):
            return float(x)  # equal by value; whether an int inhabits the declared type is C13's business
        if not isinstance(x, float):
            raise Inexact(f"{fs.name}: {_short(x)} is not a float")
        return x
    if k == "string":
        if not isinstance(x, str):
            raise Inexact(f"{fs.name}: {_short(x)} is not a str")
        return str(x)
    if k in ("bytes", "records"):
        if not isinstance(x, bytes):
            raise Inexact(f"{fs.name}: {_short(x)} is not bytes")
        return bytes(x)
    if isinstance(x, bool) or not isinstance(x, int):
        raise Inexact(f"{fs.name}: {_short(x)} is not an int")
    return int(x)


def value_to_tree(fs: FieldSpec, v: object) -> object:
    if fs.array:
        if v is None:
            return None
        if not isinstance(v, tuple):
            raise Inexact(f"{fs.name}: array value {type(v).__name__} is not a tuple")
        return [_leaf_to_tree(fs, x) for x in v]
    return _leaf_to_tree(fs, v)


def instance_to_tree(spec: StructSpec, inst: object) -> dict:
    if spec.cls is not None and type(inst) is not spec.cls:
        raise Inexact(f"{type(inst)!r} is not {spec.cls!r}")
    return {fs.name: value_to_tree(fs, getattr(inst, fs.name)) for fs in spec.fields}


def _leaf_to_python(fs: FieldSpec, x: object, error_code_cls: object) -> object:
    if x is None:
        return None
    if fs.kind == "struct":
        return tree_to_instance(fs.struct, x)
    k = fs.ktype
    if k in ("timedelta_i32", "timedelta_i64"):
        return datetime.timedelta(milliseconds=x)
    if k == "datetime_i64":
        when = EPOCH + datetime.timedelta(milliseconds=x)
        if INSTANCE_TZ is not None:
            try:
                when = when.astimezone(INSTANCE_TZ)  # same instant, other zone
            except OverflowError:
                pass
        return when
    if k == "uuid":
        return _uuid.UUID(bytes=x)
    if k == "error_code":
        try:
            return error_code_cls(x)
        except ValueError:
            return x  # a Kafka code the enum of the tree under test lacks: hand kio the bare int, the checks will see what it does with it
    return x


def tree_to_instance(spec: StructSpec, tree: dict) -> object:
    """Build the ideal kio instance for a tree without going through phantom constructors."""
    from kio.schema.errors import ErrorCode

    assert spec.cls is not None
    kw = {}
    for fs in spec.fields:
        v = tree[fs.name]
        if fs.array:
            kw[fs.name] = None if v is None else tuple(_leaf_to_python(fs, x, ErrorCode) for x in v)
        else:
            kw[fs.name] = _leaf_to_python(fs, v, ErrorCode)
    return spec.cls(**kw)


def all_struct_specs(spec: StructSpec, seen: dict | None = None) -> list[StructSpec]:
    """spec and every struct reachable from it (each once)."""
    seen = {} if seen is None else seen
    if id(spec) in seen:
        return []
    seen[id(spec)] = spec
    out = [spec]
    for fs in spec.fields:
        if fs.struct is not None:
            out += all_struct_specs(fs.struct, seen)
    return out


def max_depth(spec: StructSpec) -> int:
    d = 0
    for fs in spec.fields:
        if fs.struct is not None:
            d = max(d, 1 + max_depth(fs.struct))
    return d
