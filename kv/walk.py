"""Own walk of the kio.schema package on disk (independent of codegen.introspect_schema).

Ground truth for "what exists": every ``kio.schema.<api>.v<N>.<type>`` module importable
from the working tree and every dataclass defined in it.
"""
from __future__ import annotations

import dataclasses
import importlib
import pkgutil
import re
from typing import NamedTuple

from . import common  # noqa: F401  (sys.path side effect)

MODULE_RE = re.compile(r"^kio\.schema\.([a-z0-9_]+)\.v(\d+)\.(request|response|header|data)$")


class Mod(NamedTuple):
    name: str
    api: str
    version: int
    type: str
    module: object
    classes: tuple  # dataclasses defined in this module, definition order


_cache: list[Mod] | None = None
_others: list[str] = []


def modules() -> list[Mod]:
    """All version modules, sorted by name. Imports the whole package (≈3 s)."""
    global _cache
    if _cache is not None:
        return _cache
    common.assert_repo_is_working_tree()
    import kio.schema

    out = []
    _others.clear()
    for info in pkgutil.walk_packages(kio.schema.__path__, "kio.schema."):
        m = MODULE_RE.match(info.name)
        if info.ispkg:
            continue
        if not m:
            _others.append(info.name)
            continue
        mod = importlib.import_module(info.name)
        classes = tuple(
            v
            for v in vars(mod).values()
            if isinstance(v, type) and v.__module__ == mod.__name__ and dataclasses.is_dataclass(v)
        )
        out.append(Mod(info.name, m.group(1), int(m.group(2)), m.group(3), mod, classes))
    out.sort(key=lambda x: (x.api, x.type, x.version))
    _cache = out
    return out


def other_modules() -> list[str]:
    """Non-version leaf modules under kio.schema (index, errors, types)."""
    modules()
    return list(_others)


def classes() -> list[type]:
    return [c for m in modules() for c in m.classes]


def class_path(cls: type) -> str:
    return f"{cls.__module__}:{cls.__qualname__}"


def resolve(path: str) -> type:
    mod, _, name = path.partition(":")
    return getattr(importlib.import_module(mod), name)


def families() -> dict[tuple[str, str], list[Mod]]:
    fam: dict[tuple[str, str], list[Mod]] = {}
    for m in modules():
        fam.setdefault((m.api, m.type), []).append(m)
    return fam


def top_level(m: Mod) -> list[type]:
    return [c for c in m.classes if getattr(c, "__type__", None) is not None and c.__type__.name == m.type]
