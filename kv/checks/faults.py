"""C06 (every strict prefix -> BufferUnderflow) and C10 (malformed input fails fast, allowed errors only)."""
from __future__ import annotations

import hashlib
import io
import os
import resource
import socket
import traceback

from .. import common, describe, gen, refcodec, shard, steps, walk
from ..common import Result
from ..streams import ReadOnlySource
from .codec import _exc_key, _my_classes, kio_encode

STEP_BASE = 64
STEP_PER_BYTE = 32


def _budget(nbytes: int) -> int:
    return STEP_BASE + STEP_PER_BYTE * nbytes


# ---------------------------------------------------------------------------------------
# C06


def _cuts_for(rng, raw: bytes, layout: list) -> tuple[list[int], bool]:
    n = len(raw)
    if n <= 512:
        return list(range(n)), True
    cuts = set()
    nent, nrand = (120, 128) if n <= 8192 else (40, 32)  # a prefix decode costs O(len): fewer cuts for long encodings
    third = nent // 3
    entries = layout if len(layout) <= nent else layout[:third] + rng.sample(layout[third:-third], third) + layout[-third:]
    for off, ln, _, _ in entries:
        for c in (off - 1, off, off + 1, off + ln - 1, off + ln):
            if 0 <= c < n:
                cuts.add(c)
    for _ in range(nrand):
        cuts.add(rng.randrange(n))
    cuts.add(n - 1)
    cuts.add(0)
    return sorted(cuts), False


class _EndedRaw(io.RawIOBase):
    """A raw (unbuffered) binary stream holding exactly `data`, then end of stream."""

    def __init__(self, data: bytes) -> None:
        super().__init__()
        self._data, self._pos = data, 0

    def readable(self) -> bool:
        return True

    def readinto(self, b) -> int:  # noqa: ANN001
        n = min(len(b), len(self._data) - self._pos)
        b[:n] = self._data[self._pos:self._pos + n]
        self._pos += n
        return n


def c06_worker(res: Result, i: int, n: int) -> None:
    from kio.serial import entity_reader
    from kio.serial.errors import BufferUnderflow

    classes = _my_classes(i, n)
    st = steps.Steps()
    st.start()
    by_role: dict[str, int] = {}
    distinct: set[bytes] = set()
    closers: list = []
    per_class = 7 if res.tier == "quick" else 200
    max_ratio = 0.0
    try:
        for cls in classes:
            spec = describe.spec_from_class(cls)
            rng = common.rng_for("C06", walk.class_path(cls))
            g = gen.Gen(rng, "canonical", big_prob=0.0, long_arrays=False)  # a prefix decode is O(len): keep encodings moderate
            trees = g.each_choice(spec, extra_random=0)
            rng.shuffle(trees)
            trees = trees[:per_class - 2] + [g.struct(spec) for _ in range(2)]
            long_fields = [fs for fs in spec.fields if fs.array]
            if long_fields and (res.tier == "thorough" or rng.random() < 0.35):
                # one instance with an array far beyond 128 items (cuts are sampled, the budget scales with the size)
                fs = rng.choice(long_fields)
                t = g.struct(spec)
                g._lean += 1  # noqa: SLF001
                try:
                    t[fs.name] = [g._item(fs, 1) for _ in range(rng.choice((256, 300, 1000, 1024, 2048, 2500) if fs.kind == "prim" else (256, 300)))]  # noqa: SLF001
                finally:
                    g._lean -= 1  # noqa: SLF001
                trees.append(t)
                res.count("instances_with_a_long_array")
            blob_fields = [fs for fs in spec.fields if fs.kind == "prim" and fs.ktype in ("bytes", "records") and not fs.array]
            if blob_fields and rng.random() < (0.06 if res.tier == "quick" else 0.5):
                # one payload beyond what "large message" thresholds usually are (a fetch response easily carries tens of MiB)
                t = g.struct(spec)
                t[rng.choice(blob_fields).name] = rng.randbytes(97) * ((rng.choice((5, 6, 17)) << 20) // 97 + 1)
                trees.append(t)
                res.count("instances_with_a_payload_of_5_to_17_MiB")
            if res.tier == "thorough":
                trees += [g.struct(spec) for _ in range(per_class - len(trees))]
            reader = entity_reader(cls)
            for tree in trees:
                try:
                    inst = describe.tree_to_instance(spec, tree)
                    raw = kio_encode(cls, inst)
                    _, layout = refcodec.encode(spec, tree)
                except Exception:  # noqa: BLE001
                    res.count("unencodable_instances_skipped")  # C01/C02's business
                    continue
                res.count("instances")
                cuts, exhaustive = _cuts_for(rng, raw, layout)
                if exhaustive:
                    res.count("instances_with_all_cuts")
                if raw:
                    distinct.add(hashlib.sha256(cls.__module__.encode() + cls.__name__.encode() + raw).digest()[:12])
                for c in cuts:
                    role, _ = refcodec.role_at(layout, c)
                    by_role[role] = by_role.get(role, 0) + 1
                    kinds = ("ro", "bytesio") if (c % 5 == 0 or res.counters.get("instances", 0) % 8 == 1) else ("ro",)
                    if c % 5 == 2 or res.counters.get("instances", 0) % 8 == 3:
                        # the usual place of a message body: behind other bytes of the same seekable stream (its header, earlier messages)
                        kinds += ("bytesio_at_offset",)
                    if c % 7 == 3 or res.counters.get("instances", 0) % 16 == 2:
                        # the stream types of the io module, which code may single out with isinstance(): a raw (unbuffered) stream - here
                        # one that ends after c bytes, as a closed connection does - and a BufferedReader over it
                        kinds += ("raw", "buffered")
                    if c % 53 == 11 and len(raw) <= 60000:
                        # ... and the operating system's own raw streams (io.FileIO over a pipe, socket.SocketIO), whose writing end is
                        # closed after the cut
                        kinds += ("os_pipe_raw", "os_socket_raw")
                    for kind in kinds:
                        res.count("cuts")
                        res.count(f"cuts_via_{kind}")
                        for cl in closers:
                            try:
                                cl()
                            except OSError:
                                pass
                        closers = []
                        if kind == "os_pipe_raw":
                            rfd, wfd = os.pipe()
                            os.write(wfd, raw[:c])
                            os.close(wfd)
                            src = os.fdopen(rfd, "rb", 0)
                            closers.append(src.close)
                        elif kind == "os_socket_raw":
                            sa, sb = socket.socketpair()
                            sa.sendall(raw[:c])
                            sa.close()
                            src = sb.makefile("rb", buffering=0)
                            closers += [src.close, sb.close]
                        elif kind == "bytesio_at_offset":
                            lead = bytes(rng.randrange(256) for _ in range(rng.choice((1, 2, 7, 40))))
                            src = io.BytesIO(lead + raw[:c])
                            src.seek(len(lead))
                        else:
                            src = (ReadOnlySource(raw, cut=c) if kind == "ro" else io.BytesIO(raw[:c]) if kind == "bytesio"
                                   else _EndedRaw(raw[:c]) if kind == "raw" else io.BufferedReader(_EndedRaw(raw[:c]), buffer_size=rng.choice((16, 8192))))
                        st.arm(_budget(c))
                        try:
                            out = reader(src)
                        except BufferUnderflow:
                            used = st.disarm()
                            res.count("underflow_raised")
                            max_ratio = max(max_ratio, used / (c + 4))
                            if kind == "ro" and src.observed_events():
                                res.violation(f"source-misuse:{cls.__name__}",
                                              f"{walk.class_path(cls)}: foreign access on the source while decoding a prefix: {src.observed_events()}",
                                              {"class": walk.class_path(cls), "tree": tree, "encoding": raw, "cut": c})
                            continue
                        except steps.StepBudgetExceeded:
                            st.disarm()
                            res.violation(f"prefix-loops:{cls.__name__}",
                                          f"{walk.class_path(cls)}: decoding a {c}-byte prefix exceeded {_budget(c)} logical steps",
                                          {"class": walk.class_path(cls), "tree": tree, "encoding": raw, "cut": c, "source": kind})
                            continue
                        except Exception as exc:  # noqa: BLE001
                            st.disarm()
                            res.violation(f"prefix-wrong-error:{_exc_key(exc)}:{role}",
                                          f"{walk.class_path(cls)}: prefix of {c}/{len(raw)} bytes (cut inside {role}) raised "
                                          f"{type(exc).__name__} instead of BufferUnderflow: {exc!r}",
                                          {"class": walk.class_path(cls), "tree": tree, "encoding": raw, "cut": c, "source": kind,
                                           "error": traceback.format_exc()})
                            continue
                        st.disarm()
                        res.violation(f"prefix-decoded:{cls.__name__}:{role}",
                                      f"{walk.class_path(cls)}: prefix of {c}/{len(raw)} bytes (cut inside {role}) decoded to a value",
                                      {"class": walk.class_path(cls), "tree": tree, "encoding": raw, "cut": c, "source": kind,
                                       "returned": repr(out)[:1500]})
                if res.counters.get("instances", 0) % 997 == 1:
                    res.sample({"class": walk.class_path(cls), "encoding": raw, "cuts_tried": len(cuts), "exhaustive": exhaustive})
            res.count("classes")
    finally:
        st.stop()
    res.coverage["cuts_by_role_of_first_missing_byte"] = by_role
    res.coverage["distinct_encodings_cut"] = len(distinct)
    res.coverage["max_steps_per_byte_x1000"] = int(max_ratio * 1000)


def run_c06(tier_: str) -> int:
    res = Result("C06", "fault_enumeration", tier_)
    errs = refcodec.self_test()
    if errs:
        res.inconclusive_because("reference codec self-test failed: " + "; ".join(errs[:3]))
    shard.run(res, "kv.checks.faults:c06_worker", timeout=1200 if tier_ == "quick" else 7200)
    c = res.counters
    floor_ok = c.get("classes", 0) >= 1600 and c.get("cuts", 0) > 1000 and c.get("underflow_raised", 0) > 0
    res.coverage["exhaustive_cut_instances"] = c.get("instances_with_all_cuts", 0)
    res.assumptions.append("logical step budget 64 + 32 per input byte (measured maximum on valid decodes ~5/byte)")
    return res.finish(
        c.get("cuts", 0), int(res.coverage.get("distinct_encodings_cut", 0)),
        "per class: instances from each-choice + random generation, encoded by kio; every cut position 0..len-1 "
        "when len <= 512, otherwise every layout boundary +-1 and 256 random cuts; each prefix decoded from a "
        "read-only source that returns short at the cut (and from BytesIO for every 5th cut) under a logical step "
        "budget; distinct = distinct (class, encoding) pairs that were cut",
        floor_ok,
    )


# ---------------------------------------------------------------------------------------
# C10

VARINT_ROLES = ("clen", "calen", "ntags", "tag", "size")
FIXED_LEN_ROLES = ("len", "alen")
SPECIAL_BYTES = (0x00, 0x01, 0x7F, 0x80, 0xFF, 0xFE, 0x02)


def _mutate(rng, raw: bytes, layout: list, other: bytes) -> tuple[bytes, str]:
    b = bytearray(raw)
    kinds = ["byte", "insert", "delete", "splice", "truncate_garbage"]
    lens = [e for e in layout if e[2] in VARINT_ROLES or e[2] in FIXED_LEN_ROLES]
    markers = [e for e in layout if e[2] == "marker"]
    tags = [e for e in layout if e[2] == "tag"]
    len16 = [e for e in lens if e[2] in FIXED_LEN_ROLES and e[1] == 2]
    if len16 and rng.random() < 0.03:
        # a corrupted int16 length whose top bit is set, *followed by as many bytes as it would claim if read unsigned*: a reader that
        # gets the signedness wrong finds its bytes and returns a string no writer accepts (without them it would merely underflow)
        off, ln, _, _ = len16[-1] if rng.random() < 0.7 else rng.choice(len16)  # (the last one is often the last field: then an entity comes back)
        v = rng.choice((0x8000, 0x8001, 0xC000, 0xFFFE))
        filler = bytes(rng.choice(b"abcdefghijklmnopqrstuvwxyz-_.0123456789") for _ in range(64)) * (v // 64 + 1)
        return bytes(b[:off]) + v.to_bytes(2, "big") + filler[:v] + bytes(b[off + 2 + max(0, int.from_bytes(raw[off:off + 2], "big", signed=True)):][:64]), "length-satisfied"
    fixed = [e for e in layout if e[2] == "fixed" and e[1] in (1, 2, 4, 8) and e[0] + e[1] <= len(b)]
    if fixed:
        kinds += ["fixed-special"] * 2
    if lens:
        kinds += ["length"] * 4 + ["contbit"] * 2
    if markers:
        kinds += ["marker"]
    if tags:
        kinds += ["tag"] * 2
    kind = rng.choice(kinds)
    if kind == "length":
        off, ln, role, _ = rng.choice(lens)
        if role in FIXED_LEN_ROLES:
            cur = int.from_bytes(b[off:off + ln], "big", signed=True)
            lo, hi = -(1 << (8 * ln - 1)), (1 << (8 * ln - 1)) - 1
            v = rng.choice((0, -1, -2, lo, hi, cur + 1, cur - 1, cur + 2, len(raw), 2**24 if ln == 4 else 2**14))
            v = max(lo, min(hi, v))
            b[off:off + ln] = v.to_bytes(ln, "big", signed=True)
        else:
            try:
                cur, _ = refcodec.read_uvarint(bytes(b), off, 10)
            except (EOFError, ValueError):
                cur = 0  # stale layout after an earlier mutation
            choice = rng.randrange(12)
            if choice == 0:
                new = b"\xff\xff\xff\xff\xff"  # continuation bit set in 5th byte
            elif choice == 1:
                new = b"\x80\x80\x80\x80\x00"  # non-minimal zero
            elif choice == 2:
                new = b"\xff\xff\xff\xff\x7f"  # 2^35-1
            else:
                v = rng.choice((0, 1, 2, cur + 1, max(0, cur - 1), cur + 2, 127, 128, 2**31 - 1, 2**32 - 1, len(raw) + 1))
                new = refcodec.uvarint(v)
            b[off:off + ln] = new
    elif kind == "fixed-special":
        # the wire-level special values of a fixed-width field: -1 (the null / "none" sentinel of timestamps, ids, epochs), the type's
        # minimum and maximum, 0 and -2 - in a field that is not a length
        off, ln, _, _ = rng.choice(fixed)
        lo, hi = -(1 << (8 * ln - 1)), (1 << (8 * ln - 1)) - 1
        b[off:off + ln] = rng.choice((-1, -1, lo, hi, 0, -2, 1)).to_bytes(ln, "big", signed=True)
    elif kind == "contbit":
        off, ln, role, _ = rng.choice(lens)
        p = off + rng.randrange(ln)
        b[p] ^= 0x80
    elif kind == "marker":
        off, _, _, _ = rng.choice(markers)
        b[off] = rng.choice((0x00, 0x02, 0x7F, 0x80, 0xFE, 0xFF, 0x01))
    elif kind == "tag":
        off, ln, _, _ = rng.choice(tags)
        v = rng.choice((0, 1, 2, 3, 7, 127, 128, 2**31 - 1))
        b[off:off + ln] = refcodec.uvarint(v)
    elif kind == "byte":
        if b:
            b[rng.randrange(len(b))] = rng.choice(SPECIAL_BYTES + (rng.randrange(256),))
    elif kind == "insert":
        p = rng.randrange(len(b) + 1)
        b[p:p] = bytes(rng.choice(SPECIAL_BYTES) for _ in range(rng.randint(1, 3)))
    elif kind == "delete":
        if b:
            p = rng.randrange(len(b))
            del b[p:p + rng.randint(1, 3)]
    elif kind == "splice":
        p = rng.randrange(len(b) + 1)
        q = rng.randrange(len(other) + 1)
        b = bytearray(bytes(b[:p]) + other[q:])
    else:
        p = rng.randrange(len(b) + 1)
        b = bytearray(bytes(b[:p]) + rng.randbytes(rng.randint(0, 12)))
    return bytes(b), kind


def _allowed() -> tuple:
    from kio.serial.errors import SerialError

    return (SerialError, ValueError, OverflowError)


def c10_case(res: Result, st: steps.Steps, cls: type, reader, data: bytes, kind: str, outcomes: dict,
             origin: object = None) -> float:
    """Run one malformed-input case; returns steps per (byte+4)."""
    allowed = _allowed()
    src = ReadOnlySource(data)
    st.arm(_budget(len(data)))
    ratio = 0.0

    def payload(**kw: object) -> dict:
        d = {"class": walk.class_path(cls), "input": data, "mutation": kind, "origin": origin}
        d.update(kw)
        return d

    try:
        out = reader(src)
    except allowed as exc:
        used = st.disarm()
        ratio = used / (len(data) + 4)
        name = type(exc).__name__
        outcomes[name] = outcomes.get(name, 0) + 1
        if src.observed_events():
            # e.g. a negative read size: on a live stream that means "read until EOF", i.e. blocking and swallowing later messages
            res.violation(f"source-misuse:{src.observed_events()[0][0]}",
                          f"{walk.class_path(cls)}: before raising {name} the decoder misused the source: {src.observed_events()[:3]}", payload())
        _c10_other_source(res, st, cls, reader, data, ("raised", name), payload)
        return ratio
    except steps.StepBudgetExceeded:
        st.disarm()
        outcomes["STEP-BUDGET"] = outcomes.get("STEP-BUDGET", 0) + 1
        res.violation(f"not-linear:{cls.__name__}",
                      f"{walk.class_path(cls)}: decoding {len(data)} malformed bytes exceeded {_budget(len(data))} logical steps "
                      f"(after consuming {src.observed_position()} bytes in {src.observed_calls()} reads)",
                      payload(consumed=src.observed_position()))
        return ratio
    except BaseException as exc:  # noqa: BLE001
        st.disarm()
        name = type(exc).__name__
        outcomes["BAD-" + name] = outcomes.get("BAD-" + name, 0) + 1
        res.violation(f"internal-error:{_exc_key(exc)}",
                      f"{walk.class_path(cls)}: malformed input raised {name} (not a serialization error / ValueError / OverflowError): {exc!r}",
                      payload(error=traceback.format_exc()))
        if isinstance(exc, (KeyboardInterrupt, SystemExit)):
            raise
        return ratio
    used = st.disarm()
    ratio = used / (len(data) + 4)
    outcomes["returned"] = outcomes.get("returned", 0) + 1
    if src.observed_position() > len(data) or src.observed_events():
        res.violation(f"over-consumption:{cls.__name__}",
                      f"{walk.class_path(cls)}: decoder misused the source: {src.observed_events()}",
                      payload())
    if sum(got for _, got in src.observed_reads()) != sum(nreq for nreq, _ in src.observed_reads()):
        res.violation(f"short-read-accepted:{cls.__name__}",
                      f"{walk.class_path(cls)}: decoder returned a value although a read came back short "
                      f"(asked {src.observed_requested()}, got {src.observed_position()})",
                      payload(reads=src.observed_reads()[-10:], returned=repr(out)[:1000]))
    try:
        kio_encode(cls, out)
        res.count("reencoded_ok")
    except Exception as exc:  # noqa: BLE001
        res.violation(f"returned-unencodable:{_exc_key(exc)}",
                      f"{walk.class_path(cls)}: decoder returned an entity the encoder rejects: {exc!r}",
                      payload(returned=repr(out)[:1500], error=traceback.format_exc()))
    _c10_other_source(res, st, cls, reader, data, ("returned", out), payload)
    return ratio


def _c10_other_source(res: Result, st: steps.Steps, cls: type, reader, data: bytes, first: tuple, payload) -> None:  # noqa: ANN001
    """The same bytes from a seekable in-memory buffer must have the same outcome (a decoder may not behave differently, or
    run past the end, just because the source offers tell/seek/getbuffer)."""
    buf = io.BytesIO(data)
    st.arm(_budget(len(data)))
    try:
        second: tuple = ("returned", reader(buf))
    except steps.StepBudgetExceeded:
        second = ("budget", None)
    except BaseException as exc:  # noqa: BLE001
        second = ("raised", type(exc).__name__)
        if isinstance(exc, (KeyboardInterrupt, SystemExit)):
            raise
    finally:
        st.disarm()
    res.count("second_source_runs")
    if second[0] != first[0] or (first[0] == "raised" and first[1] != second[1]) or (first[0] == "returned" and not _same_value(first[1], second[1])):
        res.violation(f"source-dependent:{first[0]}-vs-{second[0]}",
                      f"{walk.class_path(cls)}: the same {len(data)} bytes give {first[0]} {first[1] if first[0] == 'raised' else ''} from a read-only source "
                      f"but {second[0]} {second[1] if second[0] == 'raised' else ''} from a BytesIO", payload())
    elif buf.tell() > len(data):
        res.violation("position-past-end", f"{walk.class_path(cls)}: after decoding, the in-memory buffer is at {buf.tell()} of {len(data)} bytes", payload())


def _same_value(a: object, b: object) -> bool:
    try:
        return a == b or repr(a) == repr(b)  # repr covers NaN
    except Exception:  # noqa: BLE001
        return False


def c10_worker(res: Result, i: int, n: int) -> None:
    from kio.serial import entity_reader

    classes = _my_classes(i, n)  # (imports the schema first, so that the limit below is relative to the loaded process)
    try:
        # a decoder that allocates in proportion to a *claimed* length (rather than to the bytes present) now gets a MemoryError,
        # which is not an allowed outcome; 768 MiB of headroom is far above what decoding <= 2 KiB of input may need
        vm_kib = next(int(ln.split()[1]) for ln in open("/proc/self/status") if ln.startswith("VmSize:"))
        limit = vm_kib * 1024 + (768 << 20)
        resource.setrlimit(resource.RLIMIT_AS, (limit, limit))
        res.count("address_space_limited_workers")
    except (ValueError, OSError, StopIteration):
        pass
    st = steps.Steps()
    st.start()
    outcomes: dict[str, int] = {}
    kinds: dict[str, int] = {}
    distinct: set[bytes] = set()
    per_class = 400 if res.tier == "quick" else 30000
    max_ratio = 0.0
    try:
        for cls in classes:
            spec = describe.spec_from_class(cls)
            rng = common.rng_for("C10", walk.class_path(cls))
            g = gen.Gen(rng, "canonical", big_prob=0.0)
            reader = entity_reader(cls)
            bases = []
            for tree in g.each_choice(spec, extra_random=2):
                try:
                    raw, layout = refcodec.encode(spec, tree)
                except refcodec.RefCodecError:
                    continue
                if len(raw) <= 2048:
                    bases.append((raw, layout))
            if not bases:
                res.inconclusive_because(f"no base encoding for {walk.class_path(cls)}")
                continue
            for k in range(per_class):
                res.count("inputs")
                if k % 4 == 0:
                    ln = rng.choice((0, 1, 2, 3, 4, 6, 8, 12, 16, 24, 40, 64))
                    if rng.random() < 0.5:
                        data = rng.randbytes(ln)
                    else:
                        data = bytes(rng.choice(SPECIAL_BYTES) for _ in range(ln))
                    kind = "random"
                else:
                    raw, layout = rng.choice(bases)
                    other = rng.choice(bases)[0]
                    data, kind = _mutate(rng, raw, layout, other)
                    for _ in range(rng.choice((0, 0, 1, 2))):
                        # further mutations no longer know the layout exactly; still aimed at the same offsets
                        data, k2 = _mutate(rng, data, [e for e in layout if e[0] + e[1] <= len(data)], other)
                        kind += "+" + k2
                kinds[kind.split("+")[0]] = kinds.get(kind.split("+")[0], 0) + 1
                r = c10_case(res, st, cls, reader, data, kind, outcomes)
                max_ratio = max(max_ratio, r)
                distinct.add(hashlib.sha256(cls.__name__.encode() + data).digest()[:10])
                if res.counters["inputs"] % 20011 == 1:
                    res.sample({"class": walk.class_path(cls), "mutation": kind, "input": data})
            res.count("classes")
    finally:
        st.stop()
    res.coverage["inputs_by_first_mutation_kind"] = kinds
    res.coverage["outcomes"] = outcomes
    res.coverage["distinct_inputs"] = len(distinct)
    res.coverage["max_steps_per_byte_x1000"] = int(max_ratio * 1000)


_SCALING = """
import io, json, sys, time
sys.path.insert(0, {verif!r})
from kv import common, refcodec  # (puts the tree under test on sys.path)
from kio.serial import entity_reader
from kio.schema.sasl_authenticate.v0.request import SaslAuthenticateRequest as Legacy
from kio.schema.sasl_authenticate.v2.request import SaslAuthenticateRequest as Flexible
from kio.schema.produce.v3.request import PartitionProduceData

def encodings(n):
    payload = bytes(n)
    return {{"legacy bytes": (Legacy, n.to_bytes(4, "big") + payload), "compact bytes": (Flexible, refcodec.uvarint(n + 1) + payload + b"\\x00"),
            "legacy records": (PartitionProduceData, (7).to_bytes(4, "big") + n.to_bytes(4, "big") + payload)}}

def best(fn, reps):
    out = []
    for _ in range(reps):
        t0 = time.process_time_ns()
        fn()
        out.append(time.process_time_ns() - t0)
    return max(1, min(out))

# count-driven inputs: the work is in the number of items, not in their size (unknown tagged fields, array items, small strings)
from kio.schema.api_versions.v3.request import ApiVersionsRequest
from kio.schema.offset_fetch.v7.request import OffsetFetchRequestTopic
from kio.schema.metadata.v9.request import MetadataRequest
from kio.schema.offset_fetch.v1.request import OffsetFetchRequestTopic as LegacyTopic
from kio.schema.metadata.v1.request import MetadataRequest as LegacyMetadata
import gc

def counted(n):
    tags = b"".join(refcodec.uvarint(200 + k) + b"\\x00" for k in range(n))
    return {{"unknown tagged fields": (ApiVersionsRequest, b"\\x02a\\x02b" + refcodec.uvarint(n) + tags),
            "int32 array items": (OffsetFetchRequestTopic, b"\\x02t" + refcodec.uvarint(n + 1) + bytes(4 * n) + b"\\x00"),
            "struct array items": (MetadataRequest, refcodec.uvarint(n + 1) + b"\\x02t\\x00" * n + b"\\x00\\x00\\x00\\x00"),
            "legacy int32 array items": (LegacyTopic, b"\\x00\\x01t" + n.to_bytes(4, "big") + bytes(4 * n)),
            "legacy struct array items": (LegacyMetadata, n.to_bytes(4, "big") + b"\\x00\\x01t" * n)}}

# a length prefix that claims millions of items with no data behind it: nothing may be set aside for them (tracemalloc peak, deterministic)
import tracemalloc
claimed = {{}}
for name, (cls, data) in {{"compact array claiming 2^24 items": (MetadataRequest, refcodec.uvarint(2**24 + 1)),
                          "legacy array claiming 2^24 items": (LegacyMetadata, (2**24).to_bytes(4, "big")),
                          "legacy array claiming 2^31-1 items": (LegacyMetadata, (2**31 - 1).to_bytes(4, "big")),
                          "compact bytes claiming 2^30 bytes": (Flexible, refcodec.uvarint(2**30 + 1)),
                          "unknown tagged field claiming 2^31 bytes": (ApiVersionsRequest, b"\\x02a\\x02b\\x01" + refcodec.uvarint(77) + refcodec.uvarint(2**31)),
                          "legacy bytes claiming 2^31-1 bytes": (Legacy, (2**31 - 1).to_bytes(4, "big"))}}.items():
    reader = entity_reader(cls)
    tracemalloc.start()
    t0 = time.process_time_ns()
    try:
        reader(io.BytesIO(data + b"\\x00" * 8))
        outcome = "returned"
    except MemoryError:
        outcome = "MemoryError"
    except Exception as exc:
        outcome = type(exc).__name__
    spent = time.process_time_ns() - t0
    peak = tracemalloc.get_traced_memory()[1]
    tracemalloc.stop()
    claimed[name] = [peak, outcome, spent]

count_res = {{}}
gc.disable()
for name in counted(1):
    row = []
    for n in ({csmall}, {cbig}):
        cls, data = counted(n)[name]
        reader = entity_reader(cls)
        row.append(best(lambda: reader(io.BytesIO(data)), 3))
    count_res[name] = row
gc.enable()

res = {{}}
for name in encodings(1):
    row = []
    for n in ({small}, {big}):
        cls, data = encodings(n)[name]
        reader = entity_reader(cls)
        decode = best(lambda: reader(io.BytesIO(data)), 7)
        copy = best(lambda: data[8:], 7)  # one allocation + one copy of (nearly) the same size, in the same allocator / cache regime
        row.append([decode, copy])
    res[name] = row
print(json.dumps({{"sized": res, "counted": count_res, "claimed": claimed}}))
"""


def scaling_probe(res: Result) -> None:
    """Time proportional to the input size, measured where work hides from step counts.  A valid value of N and of 8 N bytes is decoded
    (CPU time of the process, best of seven); each time is divided by the time of ONE plain copy of the same number of bytes taken in the
    same process, which cancels the allocator's and the caches' size regimes (a raw 8 N / N ratio jumps from 8 to 60 on this machine
    between 16 and 32 MiB for perfectly linear code).  Linear decoding keeps that quotient constant (growth 1.0, measured 0.94-1.05);
    re-copying what was read so far makes it grow about 8-fold.  A growth above 3 has to show in three independent rounds to count."""
    import json
    import os
    import subprocess
    import sys

    small, big = 2 << 20, 16 << 20
    csmall, cbig = 4000, 32000
    rounds: list[dict] = []
    crounds: list[dict] = []
    claimed: dict = {}

    def growth(row: list) -> float:
        (ds, cs), (db, cb) = row
        return (db / cb) / (ds / cs)

    for _ in range(3):
        try:
            p = subprocess.run([sys.executable, "-c", _SCALING.format(verif=str(common.VERIF), small=small, big=big, csmall=csmall, cbig=cbig)], capture_output=True,
                               text=True, timeout=1800, env=dict(os.environ, PYTHONHASHSEED="0"), cwd=str(common.VERIF))
            doc = json.loads(p.stdout.strip().splitlines()[-1])
            rounds.append(doc["sized"])
            crounds.append(doc["counted"])
            claimed = doc["claimed"]
        except Exception as exc:  # noqa: BLE001
            res.inconclusive_because(f"scaling probe did not report: {exc!r}")
            return
        if max(growth(row) for row in rounds[-1].values()) <= 3 and max(b / max(a, 1) for a, b in crounds[-1].values()) <= 24:
            break  # proportional in this round: nothing to confirm
    res.count("scaling_probe_rounds", len(rounds))
    growths = {name: [round(growth(r[name]), 2) for r in rounds] for name in rounds[0]}
    res.coverage["scaling_probe"] = {"sizes": [small, big], "growth_of_decode_time_over_copy_time_by_round": growths, "cpu_ns_decode_and_copy_last_round": rounds[-1]}
    res.coverage["scaling_probe"]["claimed_lengths_peak_bytes_and_outcome"] = claimed
    for name, (peak, outcome, spent) in claimed.items():
        if spent > 3_000_000_000:
            # (microseconds on the unchanged tree; three CPU seconds for a dozen bytes is five orders of magnitude away, not a timing call)
            res.violation(f"time-by-claimed-length:{name.split()[0]}", f"{name} (a dozen input bytes): the decoder spent {spent / 1e9:.1f} CPU seconds before it gave up ({outcome}): "
                          "time in proportion to a claimed length, not to the input", {"shape": name, "cpu_ns": spent, "outcome": outcome})
        if peak > (4 << 20) or outcome == "MemoryError":
            res.violation(f"allocation-by-claimed-length:{name.split()[0]}", f"{name} (a dozen input bytes): the decoder set aside {peak} bytes before failing ({outcome}): "
                          "memory (and the time to clear it) in proportion to a claimed length, not to the input", {"shape": name, "peak": peak, "outcome": outcome})
    cratios = {name: [round(r[name][1] / max(r[name][0], 1), 1) for r in crounds] for name in crounds[0]}
    res.coverage["scaling_probe"]["count_driven"] = {"items": [csmall, cbig], "cpu_time_ratio_by_round": cratios, "cpu_ns_last_round": crounds[-1]}
    for name, rs in cratios.items():
        # eight times the items: linear work gives about 8 (measured 7.5-9.5 with the collector off); quadratic work about 64
        if len(rs) == 3 and min(rs) > 24:
            res.violation(f"superlinear-count:{name.replace(' ', '-')}", f"decoding {cbig} {name} took {min(rs)}..{max(rs)} times the CPU time of decoding {csmall} (8 times as many) "
                          f"in three independent rounds: not proportional to the input size", {"shape": name, "ratios": rs, "rounds": crounds})
    for name, gs in growths.items():
        if len(gs) == 3 and min(gs) > 3:
            res.violation(f"superlinear:{name.replace(' ', '-')}", f"decoding a {name} value: going from {small} to {big} bytes the CPU time grew {min(gs)}..{max(gs)} times faster "
                          f"than the time of one plain copy of the same bytes, in three independent rounds: not proportional to the input size", {"field": name, "growth": gs, "rounds": rounds})


def run_c10(tier_: str) -> int:
    res = Result("C10", "exploration", tier_)
    errs = refcodec.self_test()
    if errs:
        res.inconclusive_because("reference codec self-test failed: " + "; ".join(errs[:3]))
    shard.run(res, "kv.checks.faults:c10_worker", timeout=1200 if tier_ == "quick" else 7200)
    scaling_probe(res)
    c = res.counters
    oc = res.coverage.get("outcomes", {})
    floor_ok = (c.get("classes", 0) >= 1600 and c.get("inputs", 0) > 1000 and oc.get("returned", 0) > 0
                and sum(v for k, v in oc.items() if k not in ("returned",)) > 0)
    res.assumptions.append("logical step budget 64 + 32 per input byte stands in for 'time proportional to the input size'; work below the level of Python "
                           "calls is probed separately: CPU time of decoding a 2 MiB and a 16 MiB value, each relative to one plain copy of the same size (three rounds must agree before it counts)")
    res.assumptions.append("allowed errors: kio.serial.errors.SerialError subclasses, ValueError (incl. UnicodeDecodeError), OverflowError")
    return res.finish(
        c.get("inputs", 0), int(res.coverage.get("distinct_inputs", 0)),
        "per class: 1/4 random byte strings (0-64 bytes), 3/4 structure-aware mutations of valid encodings aimed via the "
        "reference layout map at length prefixes, varint continuation bits, tag numbers, struct markers, plus byte "
        "overwrite/insert/delete/splice (1-3 mutations); decoded from an instrumented read-only source under a step "
        "budget and RLIMIT_AS; whatever is returned is re-encoded; distinct = distinct (class, input bytes)",
        floor_ok,
    )


def run(prop: str, tier_: str) -> int:
    return run_c06(tier_) if prop == "C06" else run_c10(tier_)


def replay(prop: str, path: str) -> int:
    from kio.serial import entity_reader
    from kio.serial.errors import BufferUnderflow

    doc = common.load_replay(path)
    case = doc["case"]
    cls = walk.resolve(case["class"])
    res = Result(prop, "fault_enumeration" if prop == "C06" else "exploration", doc.get("tier", "quick"))
    st = steps.Steps()
    st.start()
    try:
        if prop == "C10":
            print(f"replay C10: {case['class']} on {len(case['input'])} input bytes ({doc['key']})")
            c10_case(res, st, cls, entity_reader(cls), case["input"], case.get("mutation", "?"), {})
        else:
            raw, c = case["encoding"], case["cut"]
            print(f"replay C06: {case['class']} prefix {c}/{len(raw)} ({doc['key']})")
            src = io.BytesIO(raw[:c]) if case.get("source") == "bytesio" else ReadOnlySource(raw, cut=c)
            st.arm(_budget(c))
            try:
                out = entity_reader(cls)(src)
                res.violation(doc["key"], f"{case['class']}: prefix of {c}/{len(raw)} bytes decoded to a value: {out!r}"[:600], case)
            except BufferUnderflow:
                pass
            except steps.StepBudgetExceeded:
                res.violation(doc["key"], f"{case['class']}: decoding a {c}-byte prefix exceeded {_budget(c)} logical steps", case)
            except Exception as exc:  # noqa: BLE001
                res.violation(doc["key"], f"{case['class']}: prefix of {c}/{len(raw)} bytes raised {type(exc).__name__} instead of BufferUnderflow: {exc!r}", case)
            finally:
                st.disarm()
    finally:
        st.stop()
    return common.finish_replay(res)
