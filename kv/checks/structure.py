"""C08, C09, C13, C14: invariants over the live class objects and index tables.

The hook is "all of kio.schema has been imported from the working tree" (walk.modules());
the invariants walk the live objects.  All four enumerate a finite space completely.
"""
from __future__ import annotations

import dataclasses
import importlib
import io
import json
import os
import re
import traceback
import types
import typing
import uuid

from .. import common, describe, gen, refcodec, walk
from ..common import Result


def snake(name: str) -> str:
    """Independent snake-casing (regex based)."""
    s = re.sub(r"(?<=[a-z])(?=[A-Z])|(?<=[A-Z])(?=[A-Z][a-z])|(?<=[0-9])(?=[A-Z][a-z])", "_", name)
    return s.lower()


def api_of_class_name(name: str, type_: str) -> str:
    s = snake(name)
    if type_ in ("request", "response") and s.endswith("_" + type_):
        s = s[: -len(type_) - 1]
    return s


def _header_classes() -> dict[str, type]:
    out = {}
    for kind, versions in (("request", (0, 1, 2)), ("response", (0, 1))):
        for v in versions:
            mod = importlib.import_module(f"kio.schema.{kind}_header.v{v}.header")
            out[f"{kind}{v}"] = getattr(mod, "RequestHeader" if kind == "request" else "ResponseHeader")
    return out


def expected_header(kind: str, api_key: int, version: int, flexible: bool) -> str:
    """ApiMessageTypeGenerator's rule, restated."""
    if kind == "request":
        if api_key == 7 and version == 0:
            return "request0"
        return "request2" if flexible else "request1"
    if api_key == 18:
        return "response0"
    return "response1" if flexible else "response0"


COLD_IMPORT_SNIPPET = r"""
import sys, json, threading, time
sys.path.insert(0, {verif!r})
from kv import common  # puts the working tree first on sys.path
from kio import index
from kio.schema import index as sidx
from kio.static.constants import EntityType
picks = {picks!r}
mon = sys.monitoring
mon.use_tool_id(2, "kv-park")
state = {{"target": None, "parked": threading.Event()}}
def on_start(code, offset):
    t = state["target"]
    if t is not None and code.co_name == "<module>" and code.co_filename.endswith(t):
        state["target"] = None
        state["parked"].set()
        time.sleep(0.4)   # the importing thread is parked inside the module body, holding the import lock
    return None
mon.register_callback(2, mon.events.PY_START, on_start)
mon.set_events(2, mon.events.PY_START)
out = []
for api, ver, et in picks:
    path = sidx.schema_name_map[api][ver][EntityType[et]]
    modname = path.split(":")[0]
    if modname in sys.modules:
        out.append([api, ver, et, "already imported", "skipped"])
        continue
    state["target"] = "/" + modname.replace(".", "/") + ".py"
    state["parked"].clear()
    results = {{}}
    def look(who):
        try:
            cls = index.load_entity_schema(api, ver, EntityType[et])
            results[who] = f"{{cls.__module__}}:{{cls.__qualname__}}"
        except BaseException as exc:
            results[who] = "raised " + repr(exc)[:200]
    a = threading.Thread(target=look, args=("importer",))
    a.start()
    parked = state["parked"].wait(20)
    b = threading.Thread(target=look, args=("second",))
    b.start()
    a.join(30); b.join(30)
    out.append([api, ver, et, path, results.get("importer"), results.get("second"), parked])
mon.set_events(2, 0)
print(json.dumps(out))
"""


def cold_import_race(res: Result, npicks: int) -> None:
    """Schedule injection at a hook: in a fresh interpreter one thread is parked *inside the body* of a schema module it is importing
    for the first time (it holds the import lock, the module sits half-initialised in sys.modules) while a second thread looks the
    same entity up.  Both must get exactly the indexed class (the second one simply waits for the import to finish)."""
    import subprocess
    import sys

    from kio.schema import index as sidx

    rng = common.rng_for(res.prop, "cold-import")
    entries = [(api, ver, et.name) for api, vm in sidx.schema_name_map.items() for ver, tm in vm.items() for et in tm]
    picks = []
    seen_pkg = set()
    for api, ver, et in rng.sample(entries, len(entries)):
        if (api, ver) not in seen_pkg and api not in ("request_header", "response_header", "metadata"):
            seen_pkg.add((api, ver))
            picks.append([api, ver, et])
        if len(picks) >= npicks:
            break
    code = COLD_IMPORT_SNIPPET.format(verif=str(common.VERIF), picks=picks)
    try:
        p = subprocess.run([sys.executable, "-c", code], capture_output=True, text=True, timeout=600, cwd=str(common.VERIF))
        rows = json.loads(p.stdout.strip().splitlines()[-1])
    except Exception as exc:  # noqa: BLE001
        res.inconclusive_because(f"cold import race did not report: {exc!r}")
        return
    for row in rows:
        if row[4] == "skipped":
            res.count("cold_import_race_skipped")
            continue
        api, ver, et, path, first, second, parked = row
        if not parked:
            res.count("cold_import_race_not_parked")
            continue
        res.count("cold_import_races")
        if first != path or second != path:
            res.violation(f"cold-import-race:{(second if second != path else first).split('(')[0]}",
                          f"({api}, {ver}, {et}): while one thread was inside the first import of the module, lookups gave importer={first!r} second={second!r}, expected {path}",
                          {"api": api, "version": ver, "type": et, "importer": first, "second": second})


def _index_plan(k: int) -> tuple[list, int]:
    """Workload of cold index schedule k: per thread a list of (function name, args, expected 'module:Class' or module name)."""
    from kio.schema import index as sidx

    rng = common.rng_for("C09", "cold-sched", k)
    keys = {v: kk for kk, v in sidx.api_key_map.items()}
    entries = [(api, ver, et.name, path) for api, vm in sidx.schema_name_map.items() for ver, tm in vm.items() for et, path in tm.items()]
    nthreads = rng.randint(2, 3)
    plan = []
    for _ in range(nthreads):
        ops = []
        for api, ver, et, path in rng.sample(entries, 4):
            if et in ("request", "response") and rng.random() < 0.8:
                fn = rng.choice(("load_request_schema" if et == "request" else "load_response_schema", "load_payload_module"))
                ops.append((fn, [keys[api], ver] + ([et] if fn == "load_payload_module" else []), path if fn != "load_payload_module" else path.split(":")[0]))
            else:
                fn = rng.choice(("load_entity_schema", "load_entity_module"))
                ops.append((fn, [api, ver, et], path if fn == "load_entity_schema" else path.split(":")[0]))
        plan.append(ops)
    return plan, rng.randint(1, 3)


def _run_index_plan(plan: list, d: int, horizon: int, seed: int) -> dict:
    from kio import index
    from kio.static.constants import EntityType

    from ..sched import Scheduler

    failures: list = []

    def body(t: int) -> None:
        for fn, args, want in plan[t]:
            a = [EntityType[x] if isinstance(x, str) and x in EntityType.__members__ else x for x in args]
            try:
                out = getattr(index, fn)(*a)
                got = out.__name__ if not isinstance(out, type) else f"{out.__module__}:{out.__qualname__}"
            except BaseException as exc:  # noqa: BLE001
                got = "raised " + repr(exc)[:160]
            if got != want:
                failures.append([t, fn, args, got, want])

    # yield points in every kio file the index may call into (a helper module next to index.py is still the index); the generated schema
    # modules and kio.static (executed while a schema module is being imported, i.e. under an import lock) stay atomic
    sch = Scheduler(prefixes=(common.KIO_DIR + os.sep,),
                    exclude=(os.path.join(common.KIO_DIR, "schema") + os.sep, os.path.join(common.KIO_DIR, "static") + os.sep, os.path.join(common.KIO_DIR, "serial") + os.sep))
    sch.start()
    try:
        s, done = sch.run([lambda t=t: body(t) for t in range(len(plan))], seed=seed, d=d, horizon=horizon)
    finally:
        sch.stop()
    return {"failures": failures[:3], "done": done, "points": s.points, "trace": s.trace, "signature": s.signature()}


def index_cold_schedule_child(k: int, horizon: int) -> dict:
    import kio.index  # noqa: F401  (imported before the threads start; the schema modules are imported lazily by the lookups themselves,
    # inside a single source line of kio/index.py, so no thread is ever preempted while it holds an import lock)

    plan, d = _index_plan(k)
    return _run_index_plan(plan, d, horizon, common.stable_hash("index-sched", common.seed(), k))


def index_cold_schedules(res: Result, total: int) -> None:
    """Threads doing the first lookups of a fresh interpreter under the baton scheduler (preemption at source lines of kio/index.py):
    a lookup table that is filled lazily and published before it is complete shows up as a valid lookup that fails."""
    import subprocess
    import sys

    sigs = set()
    for k in range(total):
        plan, d = _index_plan(k)
        s0 = _run_index_plan(plan, 0, 1, 0)
        horizon = max(6, s0["points"])
        code = (f"import sys, json; sys.path.insert(0, {str(common.VERIF)!r}); from kv.checks import structure; "
                f"print(json.dumps(structure.index_cold_schedule_child({k}, {horizon}), default=str))")
        try:
            p = subprocess.run([sys.executable, "-c", code], capture_output=True, text=True, timeout=300, cwd=str(common.VERIF),
                               env=dict(os.environ, PYTHONHASHSEED="0", VERIF_SEED=str(common.seed())))
            doc = json.loads(p.stdout.strip().splitlines()[-1])
        except Exception as exc:  # noqa: BLE001
            res.inconclusive_because(f"cold index schedule {k} did not report: {exc!r}")
            continue
        res.count("cold_index_schedules")
        if not doc["done"]:
            res.inconclusive_because(f"cold index schedule {k} did not finish")
            continue
        if doc["trace"]:
            res.count("cold_index_schedules_with_switch")
            sigs.add(doc["signature"])
        if doc["failures"]:
            t, fn, args, got, want = doc["failures"][0]
            res.violation(f"cold-index-schedule:{fn}:{got.split('(')[0][:30]}",
                          f"in a fresh interpreter under schedule (k={k}, d={d}, horizon={horizon}) thread {t}: {fn}{tuple(args)} gave {got}, expected {want}",
                          {"schedule": {"k": k, "d": d, "horizon": horizon, "switches": doc["trace"]}, "failures": doc["failures"]})
    res.coverage["distinct_cold_index_schedule_signatures"] = len(sigs)


# ---------------------------------------------------------------------------------------
# C08


def run_c08(tier_: str) -> int:
    res = Result("C08", "exploration", tier_)
    from kio import index

    hdr = _header_classes()
    # header classes must themselves be what their path says
    want = {"request0": (0, False), "request1": (1, False), "request2": (2, True), "response0": (0, False), "response1": (1, True)}
    for k, cls in hdr.items():
        res.count("header_classes")
        if (int(cls.__version__), bool(cls.__flexible__)) != want[k] or cls.__type__.name != "header":
            res.violation(f"header-class:{k}", f"header class {walk.class_path(cls)} has version/flexible "
                          f"{int(cls.__version__)}/{cls.__flexible__}, expected {want[k]}", {"class": walk.class_path(cls)})
    if len({id(c) for c in hdr.values()}) != 5:
        res.violation("header-class:aliased", "two header versions are the same class object", {k: walk.class_path(c) for k, c in hdr.items()})
    branches: dict[str, int] = {}
    payload: dict[tuple[str, int], dict[str, type]] = {}
    samples = 0
    try:
        api_table = json.loads((common.VERIF / "pins" / "api_table.json").read_text())
    except OSError:
        api_table = None
        res.inconclusive_because("pins/api_table.json is missing")
    for m in walk.modules():
        if m.type not in ("request", "response"):
            continue
        tops = walk.top_level(m)
        if len(tops) != 1:
            res.violation(f"top-level:{m.name}", f"{m.name} has {len(tops)} top-level {m.type} classes", {"module": m.name})
            continue
        top = tops[0]
        payload.setdefault((m.api, m.version), {})[m.type] = top
        for cls in m.classes:
            res.count("classes_checked")
            try:
                key, ver, flex = int(cls.__api_key__), int(cls.__version__), bool(cls.__flexible__)
                got = cls.__header_schema__
            except AttributeError as exc:
                res.violation(f"missing-attr:{walk.class_path(cls)}", f"{walk.class_path(cls)} lacks a payload attribute: {exc}", {"class": walk.class_path(cls)})
                continue
            # flexibility by Kafka's own table (pinned 3.9.0 definitions), not by the class's word: a class that is wrongly marked
            # flexible and consistently advertises the flexible header is still advertising the wrong header
            ent = api_table.get(f"{m.api}:{m.type}") if api_table else None
            if ent is not None and ent["min"] <= ver <= ent["max"]:
                res.count("classes_checked_against_pinned_flexibility")
                pinned_flex = ent["first_flexible"] is not None and ver >= ent["first_flexible"]
                if pinned_flex != flex:
                    res.violation(f"flexible-vs-pin:{walk.class_path(cls)}",
                                  f"{walk.class_path(cls)} (key {key}, v{ver}) says __flexible__={flex}; the pinned Kafka 3.9.0 definition makes v{ver} "
                                  f"{'flexible' if pinned_flex else 'non-flexible'} (flexibleVersions from {ent['first_flexible']}), so Kafka mandates {expected_header(m.type, key, ver, pinned_flex)}",
                                  {"class": walk.class_path(cls), "api_key": key, "version": ver, "flexible": flex, "pin": ent})
                    flex = pinned_flex
            exp = expected_header(m.type, key, ver, flex)
            branch = f"{m.type}:{exp}" + (":api-versions-special-case" if m.type == "response" and key == 18 else "")
            branches[branch] = branches.get(branch, 0) + 1
            if got is not hdr[exp]:
                res.violation(f"wrong-header:{walk.class_path(cls)}",
                              f"{walk.class_path(cls)} (key {key}, v{ver}, flexible={flex}) advertises header "
                              f"{walk.class_path(got) if isinstance(got, type) else got!r}, Kafka mandates {walk.class_path(hdr[exp])}",
                              {"class": walk.class_path(cls), "api_key": key, "version": ver, "flexible": flex})
            elif samples < 4 and cls is top:
                samples += 1
                res.sample({"class": walk.class_path(cls), "api_key": key, "version": ver, "flexible": flex, "header": walk.class_path(got)})
    pairs = 0
    for (api, ver), d in sorted(payload.items()):
        res.count("api_versions")
        if set(d) != {"request", "response"}:
            res.violation(f"unpaired:{api}:v{ver}", f"API {api} v{ver} has only {sorted(d)}", {"api": api, "version": ver})
            continue
        rq, rs = d["request"], d["response"]
        if int(rq.__api_key__) != int(rs.__api_key__) or bool(rq.__flexible__) != bool(rs.__flexible__):
            res.violation(f"pair-disagrees:{api}:v{ver}",
                          f"{api} v{ver}: request key/flexible {int(rq.__api_key__)}/{rq.__flexible__} vs response "
                          f"{int(rs.__api_key__)}/{rs.__flexible__}", {"api": api, "version": ver})
        try:
            a = index.load_response_from_request(rq)
            b = index.load_request_from_response(rs)
            a2 = index.load_response_from_request(index.load_request_from_response(rs))
            b2 = index.load_request_from_response(index.load_response_from_request(rq))
        except Exception as exc:  # noqa: BLE001
            res.violation(f"pair-lookup-raises:{api}:v{ver}", f"{api} v{ver}: request/response mapping raised {exc!r}",
                          {"api": api, "version": ver, "error": traceback.format_exc()})
            continue
        try:
            # the functions also accept instances
            rq_i = describe.tree_to_instance(describe.spec_from_class(rq), _minimal_tree(describe.spec_from_class(rq)))
            rs_i = describe.tree_to_instance(describe.spec_from_class(rs), _minimal_tree(describe.spec_from_class(rs)))
            if index.load_response_from_request(rq_i) is not rs or index.load_request_from_response(rs_i) is not rq:
                res.violation(f"pair-by-instance:{api}:v{ver}", f"{api} v{ver}: pairing functions give another class for an instance than for its class", {"api": api, "version": ver})
            res.count("pairs_by_instance")
            # ... and however the argument is passed (keyword calls, by class and by instance)
            if (index.load_response_from_request(request_type=rq) is not rs or index.load_request_from_response(response_type=rs) is not rq
                    or index.load_response_from_request(request_type=rq_i) is not rs or index.load_request_from_response(response_type=rs_i) is not rq):
                res.violation(f"pair-by-keyword:{api}:v{ver}", f"{api} v{ver}: pairing functions give another class when the argument is passed by keyword", {"api": api, "version": ver})
            res.count("pairs_by_keyword")
        except Exception as exc:  # noqa: BLE001
            res.violation(f"pair-by-instance-raises:{api}:v{ver}", f"{api} v{ver}: pairing by instance raised {exc!r}", {"api": api, "version": ver, "error": traceback.format_exc()})
        if a is not rs or b is not rq or a2 is not rs or b2 is not rq:
            res.violation(f"pair-not-inverse:{api}:v{ver}",
                          f"{api} v{ver}: load_response_from_request / load_request_from_response are not mutually inverse",
                          {"api": api, "version": ver, "resp_from_req": walk.class_path(a), "req_from_resp": walk.class_path(b)})
        else:
            pairs += 1
    # the pairing is a fact about the two classes: it is the same after lookups that found nothing (what those raise is C09's business)
    top_version: dict[int, int] = {}
    for (api, ver), d in payload.items():
        if "request" in d:
            k = int(d["request"].__api_key__)
            top_version[k] = max(top_version.get(k, -1), ver)
    for k, top in sorted(top_version.items()):
        for fn, args in ((index.load_request_schema, (k, top + 1)), (index.load_response_schema, (k, top + 1)), (index.load_response_schema, (k, -1)),
                         (index.load_request_schema, (k + 1000, 0))):
            try:
                fn(*args)
            except Exception:  # noqa: BLE001
                pass
            res.count("lookups_of_nonexistent_versions_before_second_pairing_pass")
    for (api, ver), d in sorted(payload.items()):
        if set(d) != {"request", "response"}:
            continue
        rq, rs = d["request"], d["response"]
        try:
            ok = index.load_response_from_request(rq) is rs and index.load_request_from_response(rs) is rq
            why = "gives other classes"
        except Exception as exc:  # noqa: BLE001
            ok, why = False, f"raises {exc!r}"
        res.count("pairs_checked_again_after_misses")
        if not ok:
            res.violation(f"pair-after-misses:{api}:v{ver}", f"{api} v{ver}: after lookups of versions that do not exist the request/response mapping {why}",
                          {"api": api, "version": ver})
    cold_import_race(res, 5 if tier_ == "quick" else 40)
    res.coverage["rule_branches_exercised"] = branches
    res.coverage["pairs_inverted"] = pairs
    res.coverage["exhaustive"] = True
    n = res.counters.get("classes_checked", 0)
    return res.finish(n + pairs, len(payload) * 2,
                      "exhaustive: every class of every request/response module compared with an independent restatement of "
                      "the Kafka header rule; every (API, version) pair checked for shared key/flexibility and mutual inversion "
                      "of the two pairing functions; distinct = distinct (API, version, request|response)",
                      floor_ok=n >= 1500 and pairs >= 300 and len(branches) >= 6)


# ---------------------------------------------------------------------------------------
# C09


def run_c09(tier_: str) -> int:
    res = Result("C09", "exploration", tier_)
    from kio import index
    from kio.schema import index as sidx
    from kio.static.constants import EntityType

    mods = walk.modules()
    truth: dict[tuple[str, int, str], tuple[object, type]] = {}
    keys: dict[int, str] = {}
    for m in mods:
        tops = walk.top_level(m)
        if len(tops) != 1:
            res.violation(f"top-level:{m.name}", f"{m.name} has {len(tops)} top-level classes", {"module": m.name})
            continue
        truth[(m.api, m.version, m.type)] = (m.module, tops[0])
        if m.type in ("request", "response"):
            k = int(tops[0].__api_key__)
            if keys.setdefault(k, m.api) != m.api:
                res.violation(f"key-shared:{k}", f"API key {k} used by {keys[k]} and {m.api}", {"key": k})
    # positive half: every module reachable, every entry resolves to the right object.  It runs twice: before any miss, and once more
    # after the whole negative half - a lookup that failed must not change what a valid lookup returns afterwards
    def positive_half(when: str) -> None:
        for (api, ver, typ), (module, cls) in truth.items():
            et = EntityType[typ]
            res.count("entries_verified" if when == "first" else "entries_verified_again_after_misses")
            try:
                path = sidx.schema_name_map[api][ver][et]
                ok = path == f"{module.__name__}:{cls.__qualname__}"
                ok = ok and index.load_entity_module(api, ver, et) is module
                ok = ok and index.load_entity_schema(api, ver, et) is cls
                if typ in ("request", "response"):
                    k = int(cls.__api_key__)
                    ok = ok and sidx.api_key_map[k] == api
                    ok = ok and index.load_payload_module(k, ver, et) is module
                    ok = ok and (index.load_request_schema(k, ver) if typ == "request" else index.load_response_schema(k, ver)) is cls
                got = index.load_entity_schema(api, ver, et)
                ok = ok and got.__name__ == cls.__name__ and int(got.__version__) == ver and got.__type__ is et
                if typ in ("request", "response"):
                    # the two sibling lookups are lookup functions as well
                    other = truth.get((api, ver, "response" if typ == "request" else "request"))
                    sib = index.load_response_from_request(cls) if typ == "request" else index.load_request_from_response(cls)
                    ok = ok and other is not None and sib is other[1]
                    # ... which are documented to take an instance as well as its class
                    spec_i = describe.spec_from_class(cls)
                    inst = describe.tree_to_instance(spec_i, _minimal_tree(spec_i))
                    sib_i = index.load_response_from_request(inst) if typ == "request" else index.load_request_from_response(inst)
                    ok = ok and sib_i is other[1]
                    res.count("sibling_lookups_by_instance")
                # the same lookups spelled with keyword arguments (all-keyword and mixed), interleaved with the positional ones: how the
                # arguments are passed must not matter
                ok = ok and index.load_entity_schema(name=api, version=ver, entity_type=et) is cls
                ok = ok and index.load_entity_module(api, version=ver, entity_type=et) is module
                ok = ok and index.load_entity_module(name=api, version=ver, entity_type=et) is module
                if typ in ("request", "response"):
                    ok = ok and index.load_payload_module(api_key=k, version=ver, entity_type=et) is module
                    ok = ok and (index.load_request_schema(api_key=k, version=ver) if typ == "request" else index.load_response_schema(k, version=ver)) is cls
                    sibk = index.load_response_from_request(request_type=cls) if typ == "request" else index.load_request_from_response(response_type=cls)
                    ok = ok and other is not None and sibk is other[1]
                res.count("keyword_call_entries")
            except Exception as exc:  # noqa: BLE001
                res.violation(f"unreachable:{api}:v{ver}:{typ}" + ("" if when == "first" else ":after-misses"),
                              f"{module.__name__} is not reachable through the index{'' if when == 'first' else ' after earlier lookups of non-existent entities'}: {exc!r}",
                              {"api": api, "version": ver, "type": typ, "error": traceback.format_exc()})
                continue
            if not ok:
                res.violation(f"wrong-entry:{api}:v{ver}:{typ}" + ("" if when == "first" else ":after-misses"),
                              f"index entry for ({api}, {ver}, {typ}) does not resolve to {walk.class_path(cls)}{'' if when == 'first' else ' after earlier lookups of non-existent entities'}",
                              {"api": api, "version": ver, "type": typ, "entry": sidx.schema_name_map[api][ver].get(et)})

    positive_half("first")
    # nothing else: every index entry is in the truth; key map one-to-one
    for api, vmap in sidx.schema_name_map.items():
        for ver, tmap in vmap.items():
            for et, path in tmap.items():
                res.count("index_entries")
                if (api, ver, et.name) not in truth:
                    res.violation(f"stale-entry:{api}:v{ver}:{et.name}", f"index lists ({api}, {ver}, {et.name}) -> {path}, no such module",
                                  {"api": api, "version": ver, "type": et.name, "path": path})
    if dict(sidx.api_key_map) != keys:
        diff = {k: (sidx.api_key_map.get(k), keys.get(k)) for k in set(sidx.api_key_map) | set(keys) if sidx.api_key_map.get(k) != keys.get(k)}
        res.violation("key-map", f"api_key_map disagrees with the schema package: {diff}", {"diff": {str(k): list(v) for k, v in diff.items()}})
    if len(set(sidx.api_key_map.values())) != len(sidx.api_key_map):
        res.violation("key-map-not-injective", "two API keys map to one name", {})
    res.coverage["api_keys"] = len(keys)

    # negative half
    rng = common.rng_for("C09")
    miss_kinds: dict[str, int] = {}
    exc_seen: dict[str, int] = {}
    apis = sorted({a for a, _, _ in truth})
    versions_of: dict[str, list[int]] = {}
    for a, v, _ in truth:
        versions_of.setdefault(a, []).append(v)
    fns_name = (index.load_entity_module, index.load_entity_schema)

    PARAMS = {"load_entity_module": ("name", "version", "entity_type"), "load_entity_schema": ("name", "version", "entity_type"),  # noqa: N806
              "load_payload_module": ("api_key", "version", "entity_type"), "load_request_schema": ("api_key", "version"), "load_response_schema": ("api_key", "version")}

    def expect_miss(kind: str, fn, args: tuple, allowed: tuple, spelling: int | None = None) -> None:  # noqa: ANN001
        res.count("miss_probes")
        miss_kinds[kind] = miss_kinds.get(kind, 0) + 1
        names = PARAMS.get(fn.__name__)
        if spelling is None and names is not None and res.counters["miss_probes"] % 3 == 0:
            # the same miss with the arguments passed by keyword, and with only the first one positional
            expect_miss(kind + ":keyword", fn, args, allowed, spelling=0)
            expect_miss(kind + ":mixed", fn, args, allowed, spelling=1)
        pos = args if spelling is None else args[:spelling]
        kw = {} if spelling is None else dict(zip(names[spelling:], args[spelling:]))
        try:
            out = fn(*pos, **kw)
        except allowed as exc:
            exc_seen[type(exc).__name__] = exc_seen.get(type(exc).__name__, 0) + 1
            return
        except BaseException as exc:  # noqa: BLE001
            res.violation(f"miss-wrong-error:{fn.__name__}:{type(exc).__name__}:{kind}",
                          f"{fn.__name__}{args!r} raised {type(exc).__name__} instead of {[a.__name__ for a in allowed]}: {exc!r}",
                          {"function": fn.__name__, "args": repr(args), "kind": kind, "error": traceback.format_exc()})
            return
        res.violation(f"miss-returned:{fn.__name__}:{kind}", f"{fn.__name__}{args!r} returned {out!r} for a non-existent entity",
                      {"function": fn.__name__, "args": repr(args), "kind": kind})

    UE, UK = index.UnknownEntity, index.UnknownAPIKey  # noqa: N806
    ets = list(EntityType)
    key_of = {v: k for k, v in keys.items()}
    for api in apis:
        vs = sorted(set(versions_of[api]))
        types_here = {t for a, v, t in truth if a == api}
        for fn in fns_name:
            for v in (vs[0] - 1, vs[-1] + 1, -1, 2**15):
                for t in types_here:
                    expect_miss("version-off-by-one", fn, (api, v, EntityType[t]), (UE,))
            for et in ets:
                if et.name not in types_here:
                    for v in (vs[0], vs[-1]):
                        expect_miss("wrong-entity-type", fn, (api, v, et), (UE,))
            # per-version type holes (e.g. a version that exists for request only)
            for v in vs:
                for et in ets:
                    if (api, v, et.name) not in truth:
                        expect_miss("type-hole", fn, (api, v, et), (UE,))
        if api in key_of:
            k = key_of[api]
            for v in (vs[0] - 1, vs[-1] + 1):
                expect_miss("key-version-off-by-one", index.load_request_schema, (k, v), (UE,))
                expect_miss("key-version-off-by-one", index.load_response_schema, (k, v), (UE,))
                expect_miss("key-version-off-by-one", index.load_payload_module, (k, v, EntityType.request), (UE,))
            for et in (EntityType.header, EntityType.data, EntityType.nested):
                expect_miss("key-wrong-entity-type", index.load_payload_module, (k, vs[0], et), (UE,))
    # entity types that are not EntityType members at all ("arbitrary integers/strings"): the member's name or value instead of the member, None
    for api in apis[:: max(1, len(apis) // 12)]:
        vs = sorted(set(versions_of[api]))
        for bogus in ("request", "response", "Request", 0, 1, -1, None, "nested", ""):
            for fn in fns_name:
                expect_miss("entity-type-not-a-member", fn, (api, vs[-1], bogus), (UE,))
                expect_miss("entity-type-not-a-member", fn, (api, vs[-1] + 1, bogus), (UE,))
            if api in key_of:
                expect_miss("entity-type-not-a-member", index.load_payload_module, (key_of[api], vs[0], bogus), (UE,))
    # versions and keys that are not integers at all (the statement says "arbitrary integers/strings"), and far-out versions with a valid key
    odd_versions = ("12", "", None, 1.5, "latest", 2**40, -(2**40), 40000)
    for api in apis[:: max(1, len(apis) // 10)]:
        vs = sorted(set(versions_of[api]))
        types_here = sorted({t for a, v, t in truth if a == api})
        for ov in odd_versions:
            for fn in fns_name:
                expect_miss("version-not-an-int-or-far-out", fn, (api, ov, EntityType[types_here[0]]), (UE,))
            if api in key_of:
                expect_miss("version-not-an-int-or-far-out", index.load_request_schema, (key_of[api], ov), (UE,))
                expect_miss("version-not-an-int-or-far-out", index.load_response_schema, (key_of[api], ov), (UE,))
                expect_miss("version-not-an-int-or-far-out", index.load_payload_module, (key_of[api], ov, EntityType.request), (UE,))
    for ok_ in ("3", "", None, 2.5, "metadata"):
        expect_miss("key-not-an-int", index.load_request_schema, (ok_, 0), (UK,))
        expect_miss("key-not-an-int", index.load_response_schema, (ok_, 0), (UK,))
        expect_miss("key-not-an-int", index.load_payload_module, (ok_, 0, EntityType.request), (UK,))
    all_keys = sorted(keys)
    near_keys = [-1, all_keys[-1] + 1, all_keys[-1] + 2, -(2**15), 2**15, 2**31] + [k for k in range(all_keys[0], all_keys[-1]) if k not in keys]
    for k in near_keys:
        expect_miss("key-near-miss", index.load_request_schema, (k, 0), (UK,))
        expect_miss("key-near-miss", index.load_response_schema, (k, 0), (UK,))
        expect_miss("key-near-miss", index.load_payload_module, (k, 0, EntityType.request), (UK,))
    nrand = 20000 if tier_ == "quick" else 2000000
    for odd_name in ("api-versions", "offset-for-leader-epoch", "api_versions_", "api__versions", "ApiVersions", 18, 0, None, b"metadata", 1.5, ("metadata",)):
        for fn in fns_name:
            expect_miss("name-separators-or-not-a-string", fn, (odd_name, 0, EntityType.request), (UE,))
    spellings = ["", "index", "errors", "types", "kio.schema.metadata", "metadata.v1", "Metadata", "METADATA", "metadata ", " metadata",
                 "metadata_request", "metadataRequest", "request_header ", "fetch_", "_fetch", "v1", "nested", "request"]
    for _ in range(nrand):
        r = rng.random()
        if r < 0.3:
            k = rng.choice((rng.randint(-(2**63), 2**63), rng.randint(-200, 400)))
            if k in keys:
                continue
            fn = rng.choice((index.load_request_schema, index.load_response_schema))
            expect_miss("random-key", fn, (k, rng.randint(-5, 30)), (UK,))
        elif r < 0.6:
            api = rng.choice(apis)
            v = rng.choice((rng.randint(-(2**63), 2**63), rng.randint(-40, 60)))
            et = rng.choice(ets)
            if (api, v, et.name) in truth:
                continue
            expect_miss("random-version", rng.choice(fns_name), (api, v, et), (UE,))
        else:
            base = rng.choice(apis)
            name = rng.choice(spellings + [base.upper(), base.capitalize(), base + "s", base[:-1], base.replace("_", ""), base.replace("_", "."),
                                           base + ".v0", "kio.schema." + base, "".join(rng.choice("abcxyz_") for _ in range(rng.randint(1, 12)))])
            if name in versions_of:
                continue
            expect_miss("random-name", rng.choice(fns_name), (name, rng.choice((0, 1, rng.randint(-3, 20))), rng.choice(ets)), (UE,))
    positive_half("after-misses")
    cold_import_race(res, 5 if tier_ == "quick" else 40)
    index_cold_schedules(res, 24 if tier_ == "quick" else 400)
    res.coverage["miss_probes_by_kind"] = miss_kinds
    res.coverage["miss_exception_classes_seen"] = exc_seen
    res.coverage["exhaustive"] = True
    res.coverage["exhaustive_note"] = "positive half (all modules <-> all index entries, all seven load_* functions) is exhaustive; misses are sampled"
    res.sample({"entry": ["metadata", 12, "request"], "resolved": str(truth.get(("metadata", 12, "request"), (None, None))[1])})
    res.sample({"miss_kinds": miss_kinds})
    n = res.counters.get("entries_verified", 0)
    return res.finish(n + res.counters.get("miss_probes", 0), n,
                      "positive: every (api, version, type) found by an own walk of the package resolved through the index maps and "
                      "all load_* functions, and every index entry matched back; negative: near-miss keys/versions/types for every "
                      "API plus seeded random ints/strings must raise exactly UnknownAPIKey/UnknownEntity; distinct = verified entries",
                      floor_ok=n >= 600 and res.counters.get("miss_probes", 0) > 1000 and len(exc_seen) == 2)


# ---------------------------------------------------------------------------------------
# C13

PY_FOR_KTYPE = {
    "int8": "i8", "int16": "i16", "int32": "i32", "int64": "i64", "uint8": "u8", "uint16": "u16", "uint32": "u32",
    "uint64": "u64", "float64": "f64", "timedelta_i32": "i32Timedelta", "timedelta_i64": "i64Timedelta", "datetime_i64": "TZAware",
    "records": "Records",
}


def _expected_pytype(ktype: str) -> type:
    import kio.static.primitive as P  # noqa: N812
    from kio.schema.errors import ErrorCode

    if ktype in PY_FOR_KTYPE:
        return getattr(P, PY_FOR_KTYPE[ktype])
    return {"bool": bool, "string": str, "bytes": bytes, "uuid": uuid.UUID, "error_code": ErrorCode}[ktype]


def _default_problem(fs: describe.FieldSpec, default: object) -> str | None:
    """Does the declared default inhabit the declared type?  Own checker, exact ranges."""
    if default is None:
        return None if fs.nullable else "None default on a non-nullable field"
    if fs.array:
        if not isinstance(default, tuple):
            return f"array default is {type(default).__name__}, not tuple"
        items = default
    else:
        items = (default,)
    for x in items:
        if fs.kind == "struct":
            if type(x) is not fs.struct.cls:
                return f"default {x!r} is not an instance of {fs.struct.cls.__name__}"
            continue
        try:
            t = describe._leaf_to_tree(fs, x)
        except describe.Inexact as exc:
            return str(exc)
        if t is None:
            if not (fs.item_nullable or fs.ktype == "uuid"):
                return "None item"
            continue
        k = fs.ktype
        if k in refcodec.INT_WIDTH:
            lo, hi = refcodec.int_range(k)
            if k == "datetime_i64":
                lo = 0
                hi = gen.DT_MAX
            if k == "timedelta_i64":
                lo, hi = gen.TD64_MIN, gen.TD64_MAX
            if not lo <= t <= hi:
                return f"default {t} outside [{lo}, {hi}] of {k}"
            if k == "error_code" and t not in gen.error_codes():
                return f"default {t} is not a known error code"
        if k == "float64" and not (t == t and abs(t) != float("inf")):
            return "non-finite float default"
        if not isinstance(x, fs.pytype) and not (fs.ktype == "string" and isinstance(x, str)):
            # custom types (BrokerId(i32)...) are phantom/str subclasses; isinstance must hold for the declared leaf type
            return f"default {x!r} is not an instance of declared {fs.pytype.__name__}"
    return None


def _resolvable_implicit(fs: describe.FieldSpec) -> str | None:
    if fs.array:
        return "tagged array without explicit default"
    if fs.nullable:
        return "tagged nullable field without explicit default"
    if fs.kind == "struct":
        for g in fs.struct.fields:
            if g.default is describe.NO_DEFAULT:
                why = _resolvable_implicit(g)
                if why:
                    return f"nested {g.name}: {why}"
        return None
    if fs.ktype == "records":
        return "tagged records field without explicit default"
    return None


def run_c13(tier_: str) -> int:
    res = Result("C13", "exploration", tier_)
    from kio.serial import entity_reader, entity_writer

    common.cold(entity_reader)
    common.cold(entity_writer)
    rows: dict[str, int] = {}
    tagged = 0
    errs = refcodec.self_test()
    if errs:
        res.inconclusive_because("reference codec self-test failed: " + "; ".join(errs[:3]))
    def description(cls: type) -> tuple:
        return tuple((f.name, "<none>" if f.default is dataclasses.MISSING else repr(f.default), f.default_factory is dataclasses.MISSING,
                      repr(f.type), repr(sorted(f.metadata.items())), f.init, f.compare, f.hash) for f in dataclasses.fields(cls))

    # what every class says about itself before anything has been derived from it
    stated = {walk.class_path(cls): description(cls) for cls in walk.classes()}
    for cls in walk.classes():
        res.count("classes")
        cp = walk.class_path(cls)
        try:
            spec = describe.spec_from_class(cls)
        except describe.DescribeError as exc:
            res.violation(f"undescribable:{cp}", f"{cp}: field description is not well-formed: {exc}", {"class": cp})
            continue
        raw_fields = {f.name: f for f in dataclasses.fields(cls)}
        seen_tags: dict[int, str] = {}
        for fs in spec.fields:
            res.count("fields")
            f = raw_fields[fs.name]
            where = f"{cp}.{fs.name}"

            def bad(kind: str, msg: str) -> None:
                res.violation(f"{kind}:{where}", f"{where}: {msg}", {"class": cp, "field": fs.name, "annotation": repr(f.type), "metadata": dict(f.metadata)})

            extra = set(f.metadata) - {"kafka_type", "tag"}
            if extra:
                bad("metadata-keys", f"unexpected metadata keys {sorted(extra)}")
            if fs.kind == "prim":
                exp = _expected_pytype(fs.ktype)
                row = f"{fs.ktype}->{exp.__name__}"
                rows[row] = rows.get(row, 0) + 1
                # exactly the type that stands for the Kafka type, or one of the named entity types of kio.schema.types deriving *directly*
                # from it.  (issubclass is not enough: the integer types nest, u8 < u16 < u32 < u64, so a narrower type would pass.)
                exact = fs.pytype is exp or (isinstance(fs.pytype, type) and fs.pytype.__module__ == "kio.schema.types" and exp in fs.pytype.__bases__)
                if not exact:
                    bad("type-mismatch", f"kafka_type {fs.ktype!r} does not match declared python type {fs.pytype!r} (expected {exp.__name__} or an entity type derived directly from it)")
                if fs.ktype == "uuid":
                    nullable_leaf = fs.item_nullable if fs.array else fs.nullable
                    if not nullable_leaf:
                        bad("uuid-not-optional", "uuid fields model the all-zero UUID as None and must be declared `| None`")
                elif (fs.item_nullable if fs.array else fs.nullable) and fs.ktype not in describe.NULLABLE_KTYPES:
                    bad("nullable-without-wire-null", f"{fs.ktype} has no wire-level null but the field is nullable")
                if fs.array and fs.item_nullable and fs.ktype != "uuid":
                    bad("nullable-items", "array items declared nullable")
            else:
                if "kafka_type" in f.metadata:
                    bad("struct-with-kafka-type", "a struct field carries a kafka_type")
                rows["struct"] = rows.get("struct", 0) + 1
                if fs.item_nullable:
                    bad("nullable-items", "array of nullable structs")
                if int(fs.struct.cls.__version__) != int(cls.__version__) or bool(fs.struct.cls.__flexible__) != bool(cls.__flexible__):
                    bad("nested-version", "nested struct class has another version/flexibility than its parent")
            if f.default is not dataclasses.MISSING:
                why = _default_problem(fs, f.default)
                if why:
                    bad("default-type", f"default {f.default!r} does not inhabit the declared type: {why}")
            if "tag" in f.metadata:
                tagged += 1
                tag = f.metadata["tag"]
                if isinstance(tag, bool) or not isinstance(tag, int) or tag < 0:
                    bad("tag-value", f"tag {tag!r} is not a non-negative int")
                elif tag in seen_tags:
                    bad("tag-duplicate", f"tag {tag} also used by field {seen_tags[tag]}")
                else:
                    seen_tags[tag] = fs.name
                if not cls.__flexible__:
                    bad("tag-on-legacy", "tagged field on a non-flexible version")
                if f.default is dataclasses.MISSING:
                    why = _resolvable_implicit(fs)
                    if why:
                        bad("tag-default-unresolvable", why)
        # a reader and a writer can be derived, and work on the minimal instance
        try:
            r = entity_reader(cls)
            w = entity_writer(cls)
        except Exception as exc:  # noqa: BLE001
            res.violation(f"underivable:{cp}", f"{cp}: reader/writer derivation raised {exc!r}", {"class": cp, "error": traceback.format_exc()})
            continue
        res.count("reader_writer_derived")
        try:
            tree = _minimal_tree(spec)
            inst = describe.tree_to_instance(spec, tree)
            buf = io.BytesIO()
            w(buf, inst)
            ref = refcodec.encode_bytes(spec, tree)
            back = r(io.BytesIO(buf.getvalue()))
            if buf.getvalue() != ref or back != inst:
                res.violation(f"minimal-instance:{cp}", f"{cp}: the minimal instance does not survive the derived writer/reader",
                              {"class": cp, "tree": tree, "kio": buf.getvalue(), "reference": ref})
            else:
                res.count("minimal_roundtrips")
        except Exception as exc:  # noqa: BLE001
            res.violation(f"minimal-instance-raises:{cp}", f"{cp}: encoding/decoding the minimal instance raised {exc!r}",
                          {"class": cp, "error": traceback.format_exc()})
        if res.counters["classes"] % 400 == 1:
            res.sample({"class": cp, "fields": [[fs.name, fs.kind, fs.ktype, fs.nullable, fs.array, fs.tag, common.jsonable(fs.default)] for fs in spec.fields][:8]})
    # ... and after a reader and a writer have been derived for all of them: the description is what readers and writers are derived *from*,
    # deriving them must not rewrite it
    for cls in walk.classes():
        cp = walk.class_path(cls)
        now = description(cls)
        res.count("descriptions_compared_after_derivation")
        if now != stated[cp]:
            changed = [a[0] for a, b in zip(stated[cp], now) if a != b]
            res.violation(f"description-rewritten:{cp}", f"{cp}: the field description changed while readers and writers were derived (fields {changed}): "
                          f"{[b for a, b in zip(stated[cp], now) if a != b][:2]} was {[a for a, b in zip(stated[cp], now) if a != b][:2]}", {"class": cp, "fields": changed})
    res.coverage["table_rows_exercised"] = rows
    res.coverage["tagged_fields_checked"] = tagged
    res.coverage["exhaustive"] = True
    n = res.counters.get("fields", 0)
    return res.finish(n + res.counters.get("classes", 0), n,
                      "exhaustive: every field of every entity class checked against a coherence table (kafka type <-> python type, "
                      "nullability, array shape, default inhabits type, tag rules) and every class must yield a reader and a writer that "
                      "round-trip its minimal instance to the reference bytes; distinct = fields checked",
                      floor_ok=res.counters.get("classes", 0) >= 1600 and n >= 5000 and res.counters.get("minimal_roundtrips", 0) >= 1600)


def _minimal_tree(spec: describe.StructSpec) -> dict:
    tree = {}
    for fs in spec.fields:
        if fs.default is not describe.NO_DEFAULT:
            tree[fs.name] = gen._copy_tree(fs.default)
        elif fs.array:
            tree[fs.name] = []
        elif fs.kind == "struct":
            tree[fs.name] = None if fs.nullable else _minimal_tree(fs.struct)
        elif fs.ktype == "string":
            tree[fs.name] = ""
        elif fs.ktype in ("bytes", "records"):
            tree[fs.name] = None if fs.nullable else b""
        elif fs.ktype == "uuid":
            tree[fs.name] = None
        elif fs.ktype == "bool":
            tree[fs.name] = False
        elif fs.ktype == "float64":
            tree[fs.name] = 0.0
        elif fs.ktype == "datetime_i64":
            tree[fs.name] = None if fs.nullable else 0
        else:
            tree[fs.name] = 0
    return tree


# ---------------------------------------------------------------------------------------
# C14


def load_api_table() -> dict | None:
    p = common.VERIF / "pins" / "api_table.json"
    if not p.exists():
        return None
    return json.loads(p.read_text())


def run_c14(tier_: str) -> int:
    res = Result("C14", "exploration", tier_)
    rules: dict[str, int] = {}

    def ok(rule: str) -> None:
        rules[rule] = rules.get(rule, 0) + 1

    fam = walk.families()
    hdr = _header_classes()
    key_of_api: dict[str, set[int]] = {}
    # the version packages kio.schema.<api>.v<N> (the documented import path) re-export exactly the top-level classes of their own leaf
    # modules - not a class of another version, nothing missing, nothing else
    by_pkg: dict[str, list] = {}
    for m in walk.modules():
        by_pkg.setdefault(m.name.rsplit(".", 1)[0], []).append(m)
    for pkg_name, mods in sorted(by_pkg.items()):
        res.count("version_packages")
        try:
            pkg = importlib.import_module(pkg_name)
        except Exception as exc:  # noqa: BLE001
            res.violation(f"package-import:{pkg_name}", f"{pkg_name} does not import: {exc!r}", {"package": pkg_name})
            continue
        want = {}
        for m in mods:
            for t in walk.top_level(m):
                want[t.__name__] = t
        bound = {k: v for k, v in vars(pkg).items() if isinstance(v, type) and dataclasses.is_dataclass(v)}
        listed = set(getattr(pkg, "__all__", ()))
        problems = []
        for name, cls in want.items():
            if bound.get(name) is not cls:
                problems.append(f"{name} is {walk.class_path(bound[name]) if name in bound else 'missing'}, expected {walk.class_path(cls)}")
        problems += [f"{name} ({walk.class_path(v)}) is not a top-level class of this version" for name, v in bound.items() if name not in want]
        if listed != set(want):
            problems.append(f"__all__ {sorted(listed)} != {sorted(want)}")
        if problems:
            res.violation(f"package-exports:{pkg_name}", f"{pkg_name}: " + "; ".join(problems[:3]), {"package": pkg_name, "problems": problems})
        else:
            ok("version-package-exports-its-own-top-level-classes")
    for m in walk.modules():
        res.count("modules")
        tops = walk.top_level(m)
        if len(tops) != 1:
            res.violation(f"top-level:{m.name}", f"{m.name}: {len(tops)} classes of type {m.type}", {"module": m.name})
            continue
        top = tops[0]
        if api_of_class_name(top.__name__, m.type) != m.api:
            res.violation(f"path-name:{m.name}", f"{m.name}: top-level class {top.__name__} names API {api_of_class_name(top.__name__, m.type)!r}, path says {m.api!r}",
                          {"module": m.name, "class": top.__name__})
        else:
            ok("path-states-api-name")
        if "Generated from" not in (m.module.__doc__ or ""):
            res.count("module_without_generated_docstring_note")
        for cls in m.classes:
            res.count("classes")
            cp = walk.class_path(cls)
            if int(cls.__version__) != m.version:
                res.violation(f"class-version:{cp}", f"{cp}: __version__ {int(cls.__version__)} in module v{m.version}", {"class": cp})
            else:
                ok("class-version==module-version")
            if bool(cls.__flexible__) != bool(top.__flexible__) or not isinstance(cls.__flexible__, bool):
                res.violation(f"class-flexible:{cp}", f"{cp}: __flexible__ {cls.__flexible__!r} differs from its module's top-level class", {"class": cp})
            else:
                ok("class-flexible==module-flexible")
            if cls is not top and cls.__type__.name != "nested":
                res.violation(f"class-type:{cp}", f"{cp}: non-top-level class has __type__ {cls.__type__.name}", {"class": cp})
            if m.type in ("request", "response"):
                if getattr(cls, "__api_key__", None) is None or int(cls.__api_key__) != int(top.__api_key__):
                    res.violation(f"class-key:{cp}", f"{cp}: __api_key__ differs within its module", {"class": cp})
                else:
                    ok("class-key==module-key")
                if getattr(cls, "__header_schema__", None) is not top.__header_schema__:
                    res.violation(f"class-header:{cp}", f"{cp}: __header_schema__ differs within its module", {"class": cp})
                else:
                    ok("class-header==module-header")
            elif hasattr(cls, "__api_key__") or hasattr(cls, "__header_schema__"):
                res.violation(f"spurious-payload-attr:{cp}", f"{cp}: header/data class carries payload attributes", {"class": cp})
        # every struct class the module *uses* (reachable through field types from its top-level class) must be one of the module's own
        # classes, and no foreign entity class may be bound in its namespace
        own = set(m.classes)
        try:
            reach = [sp.cls for sp in describe.all_struct_specs(describe.spec_from_class(top))]
        except describe.DescribeError:
            reach = []
        for cls in reach:
            res.count("reachable_classes")
            if cls not in own:
                res.violation(f"foreign-class-used:{m.name}:{cls.__name__}",
                              f"{m.name}: {top.__name__} uses {walk.class_path(cls)} (version {int(getattr(cls, '__version__', -1))}), which is not defined in this version module",
                              {"module": m.name, "class": walk.class_path(cls)})
        for k, v in vars(m.module).items():
            if isinstance(v, type) and dataclasses.is_dataclass(v) and v.__module__ != m.name and v.__module__.startswith("kio.schema.") \
                    and not v.__module__.startswith(("kio.schema.request_header.", "kio.schema.response_header.")):
                res.violation(f"foreign-class-bound:{m.name}:{k}", f"{m.name} binds the entity class {walk.class_path(v)} of another module as {k}", {"module": m.name, "name": k})
        unused = [c.__name__ for c in own if c not in reach]
        if unused:
            res.violation(f"unused-class:{m.name}", f"{m.name} defines classes that its top-level class never reaches: {unused}", {"module": m.name, "classes": unused})
        if m.type in ("request", "response"):
            key_of_api.setdefault(m.api, set()).add(int(top.__api_key__))
    table = load_api_table()
    for (api, typ), ms in sorted(fam.items()):
        res.count("families")
        vs = sorted(m.version for m in ms)
        if vs != list(range(vs[0], vs[-1] + 1)):
            res.violation(f"version-hole:{api}:{typ}", f"{api} {typ}: versions {vs} are not contiguous", {"api": api, "type": typ, "versions": vs})
        else:
            ok("versions-contiguous")
        flex = [bool(walk.top_level(m)[0].__flexible__) for m in sorted(ms, key=lambda x: x.version) if len(walk.top_level(m)) == 1]
        if any(a and not b for a, b in zip(flex, flex[1:])):
            res.violation(f"flexibility-reverts:{api}:{typ}", f"{api} {typ}: flexibility by version {flex} reverts", {"api": api, "type": typ})
        else:
            ok("flexibility-monotone")
        if typ == "request":
            other = fam.get((api, "response"))
            ovs = sorted(m.version for m in other) if other else []
            if ovs != vs:
                res.violation(f"req-resp-versions:{api}", f"{api}: request versions {vs} vs response versions {ovs}", {"api": api})
            else:
                ok("request-versions==response-versions")
        if typ == "response" and (api, "request") not in fam:
            res.violation(f"req-resp-versions:{api}", f"{api}: response family without request family", {"api": api})
        if table is not None:
            ent = table.get(f"{api}:{typ}")
            first_flex = next((v for v, f in zip(vs, flex) if f), None)
            keyset = key_of_api.get(api)
            got = {"min": vs[0], "max": vs[-1], "first_flexible": first_flex,
                   "api_key": (sorted(keyset)[0] if keyset and typ in ("request", "response") else None)}
            if ent is None:
                res.violation(f"not-in-pin:{api}:{typ}", f"{api} {typ} is not in the pinned API table", {"api": api, "type": typ})
            elif {k: ent.get(k) for k in got} != got:
                res.violation(f"pin-mismatch:{api}:{typ}", f"{api} {typ}: {got} differs from the pinned 3.9.0 table {ent}", {"api": api, "type": typ, "got": got, "pin": ent})
            else:
                ok("matches-pinned-api-table")
    if table is not None:
        for k in table:
            api, _, typ = k.partition(":")
            if (api, typ) not in fam:
                res.violation(f"missing-family:{k}", f"pinned family {k} is absent from the schema package", {"family": k})
    else:
        res.inconclusive_because("pins/api_table.json is missing")
    seen_keys: dict[int, str] = {}
    for api, ks in key_of_api.items():
        if len(ks) != 1:
            res.violation(f"key-varies:{api}", f"{api}: API key varies across versions/types: {sorted(ks)}", {"api": api})
            continue
        ok("api-key-constant")
        k = next(iter(ks))
        if k in seen_keys:
            res.violation(f"key-shared:{k}", f"API key {k} shared by {seen_keys[k]} and {api}", {"key": k})
        else:
            seen_keys[k] = api
            ok("api-key-unique")
    res.coverage["per_rule_checks_passed"] = rules
    res.coverage["exhaustive"] = True
    res.sample({"family": "fetch:request", "versions": sorted(m.version for m in fam.get(("fetch", "request"), []))})
    res.sample({"api_keys": len(seen_keys)})
    n = res.counters.get("modules", 0)
    return res.finish(n + res.counters.get("families", 0) + res.counters.get("classes", 0), n,
                      "exhaustive: every version module (class attributes vs module path, own regex snake-casing) and every "
                      "(API, type) family (contiguity, flexibility monotone, key constant/unique, request==response versions, "
                      "pinned 3.9.0 API table); distinct = modules checked",
                      floor_ok=n >= 600 and res.counters.get("families", 0) >= 180)


def run(prop: str, tier_: str) -> int:
    return {"C08": run_c08, "C09": run_c09, "C13": run_c13, "C14": run_c14}[prop](tier_)


def replay(prop: str, path: str) -> int:
    return common.replay_by_rerun(prop, path, run)
