"""C19: readers and writers are stateless - creation/use history, failed calls and threads do not matter."""
from __future__ import annotations

import hashlib
import io
import json
import os
import subprocess
import sys
import threading
import traceback

from .. import common, describe, gen, refcodec, shard, walk
from ..common import Result
from ..sched import Scheduler
from ..streams import ReadOnlySource, WriteOnlySink


class Boom(BaseException):
    """A BaseException-derived stream error: nothing in kio may swallow it."""


POOL_SEEDS = (
    "kio.schema.fetch.v15.request", "kio.schema.fetch.v16.response", "kio.schema.fetch.v12.response", "kio.schema.metadata.v12.response",
    "kio.schema.metadata.v12.request", "kio.schema.produce.v10.response", "kio.schema.produce.v9.request", "kio.schema.api_versions.v3.response",
    "kio.schema.api_versions.v0.response", "kio.schema.create_topics.v5.response", "kio.schema.create_topics.v7.request", "kio.schema.request_header.v2.header",
    "kio.schema.request_header.v1.header", "kio.schema.response_header.v1.header", "kio.schema.response_header.v0.header", "kio.schema.fetch_snapshot.v0.response",
    "kio.schema.describe_configs.v4.response", "kio.schema.offset_fetch.v8.response", "kio.schema.join_group.v9.request", "kio.schema.add_partitions_to_txn.v4.request",
    "kio.schema.update_metadata.v8.request", "kio.schema.leader_and_isr.v7.request", "kio.schema.consumer_group_describe.v0.response", "kio.schema.list_offsets.v8.response",
    "kio.schema.broker_registration.v3.request", "kio.schema.describe_cluster.v1.response", "kio.schema.consumer_group_heartbeat.v0.response",
    "kio.schema.begin_quorum_epoch.v1.response", "kio.schema.vote.v1.response", "kio.schema.describe_topic_partitions.v0.response",
    # several versions of the same class names (a plan cached under the wrong key would be reused across them)
    "kio.schema.fetch.v4.response", "kio.schema.fetch.v11.response", "kio.schema.fetch.v13.response", "kio.schema.fetch.v17.request", "kio.schema.fetch.v3.request",
    "kio.schema.metadata.v1.response", "kio.schema.metadata.v5.response", "kio.schema.metadata.v9.response", "kio.schema.metadata.v4.request",
    "kio.schema.produce.v3.response", "kio.schema.produce.v8.response", "kio.schema.produce.v3.request", "kio.schema.create_topics.v2.response", "kio.schema.create_topics.v4.request",
    "kio.schema.api_versions.v4.response", "kio.schema.request_header.v0.header", "kio.schema.list_offsets.v1.response", "kio.schema.offset_fetch.v1.response",
    # field shapes the list above lacks: float64, int64 durations, non-nullable timestamps, legacy bytes, []int64 / []int8, legacy []string, tagged []uuid
    "kio.schema.alter_client_quotas.v1.request", "kio.schema.alter_client_quotas.v0.request", "kio.schema.describe_client_quotas.v1.response",
    "kio.schema.create_delegation_token.v2.response", "kio.schema.create_delegation_token.v1.request", "kio.schema.offset_commit.v2.request",
    "kio.schema.sasl_authenticate.v0.request", "kio.schema.sasl_authenticate.v1.response", "kio.schema.broker_heartbeat.v1.request",
    "kio.schema.describe_transactions.v0.response", "kio.schema.write_txn_markers.v0.request", "kio.schema.describe_log_dirs.v1.request", "kio.schema.delete_topics.v3.request",
)


def pool_classes(extra_random: int, rng) -> list[type]:  # noqa: ANN001
    import importlib

    out: list[type] = []
    for name in POOL_SEEDS:
        try:
            mod = importlib.import_module(name)
        except ImportError:
            continue
        out += [v for v in vars(mod).values() if isinstance(v, type) and v.__module__ == name and hasattr(v, "__dataclass_fields__")]
    if extra_random:
        allc = walk.classes()
        out += rng.sample(allc, min(extra_random, len(allc)))
    seen, uniq = set(), []
    for c in out:
        if c not in seen:
            seen.add(c)
            uniq.append(c)
    return uniq


class Case:
    """One (class, value) with its history-free reference results."""

    __slots__ = ("cls", "spec", "tree", "inst", "ref")

    def __init__(self, cls: type, rng, uid: str) -> None:  # noqa: ANN001
        self.cls = cls
        self.spec = describe.spec_from_class(cls)
        g = gen.Gen(rng, "canonical", big_prob=0.0, max_items=3)
        tree = g.struct(self.spec)
        if rng.random() < 0.2:
            # a payload beyond typical chunking thresholds (64 KiB; sometimes 1 MiB): failures, reuse and interleavings then also land
            # inside whatever handles large values differently
            big = g.huge_payload_trees(self.spec, "len1048577" if rng.random() < 0.1 else "len65537")
            if big:
                tree = big[0]
        self.tree = _stamp(self.spec, tree, uid)
        self.inst = describe.tree_to_instance(self.spec, self.tree)
        self.ref = refcodec.encode_bytes(self.spec, self.tree)


def _stamp(spec: describe.StructSpec, tree: dict, uid: str) -> dict:
    """Make string fields carry a unique id so that cross-contamination is attributable."""
    for fs in spec.fields:
        v = tree.get(fs.name)
        if fs.kind == "prim" and fs.ktype == "string" and not fs.array and isinstance(v, str) and fs.tag is None:
            tree[fs.name] = (uid + "|" + v)[:200]
        elif fs.kind == "struct" and isinstance(v, dict):
            _stamp(fs.struct, v, uid)
        elif fs.kind == "struct" and isinstance(v, list):
            for k, x in enumerate(v):
                _stamp(fs.struct, x, f"{uid}.{k}")
    return tree


def do_encode(case: Case) -> str | None:
    from kio.serial import entity_writer

    buf = io.BytesIO()
    entity_writer(case.cls)(buf, case.inst)
    got = buf.getvalue()
    return None if got == case.ref else f"encode of {walk.class_path(case.cls)} gave {got[:40].hex()}.. instead of {case.ref[:40].hex()}.. (first diff at {refcodec.first_diff(got, case.ref)})"


def do_decode(case: Case) -> str | None:
    from kio.serial import entity_reader

    src = io.BytesIO(case.ref + b"\xee")
    got = entity_reader(case.cls)(src)
    if got != case.inst:
        return f"decode of {walk.class_path(case.cls)} gave a different value"
    if src.tell() != len(case.ref):
        return f"decode of {walk.class_path(case.cls)} consumed {src.tell()} of {len(case.ref)} bytes"
    return None


_UNKNOWN_SIZES = (0, 1, 2, 3, 6, 17, 127, 128, 300)


def _with_unknown(spec: describe.StructSpec, tree: dict, rng) -> dict:  # noqa: ANN001
    """The same value as a newer peer would send it: every flexible struct in it (nested ones and array elements too) carries one tagged
    field this schema version does not know - always the same tag number per struct type, with a payload of another size each time."""
    out = dict(tree)
    for fs in spec.fields:
        v = out.get(fs.name)
        if fs.kind == "struct" and isinstance(v, dict):
            out[fs.name] = _with_unknown(fs.struct, v, rng)
        elif fs.kind == "struct" and isinstance(v, (list, tuple)):
            out[fs.name] = [_with_unknown(fs.struct, x, rng) for x in v]
    if spec.flexible:
        known = {fs.tag for fs in spec.tagged}
        tag = next(t for t in range(0, 64) if t not in known)
        out["$unknown"] = [(tag, rng.randbytes(rng.choice(_UNKNOWN_SIZES)))]
    return out


def do_decode_forward(case: Case, rng) -> str | None:  # noqa: ANN001
    """Decoding what a newer peer sends (unknown tagged fields, skipped): the reader must give the same value whatever unknown fields it
    has skipped before - their tags and sizes are facts about one message, not about the reader."""
    from kio.serial import entity_reader

    if not case.spec.flexible:
        return do_decode(case)
    data = refcodec.encode_bytes(case.spec, _with_unknown(case.spec, case.tree, rng))
    src = io.BytesIO(data + b"\xee")
    got = entity_reader(case.cls)(src)
    if got != case.inst:
        return f"decode of {walk.class_path(case.cls)} with unknown tagged fields gave a different value"
    if src.tell() != len(data):
        return f"decode of {walk.class_path(case.cls)} with unknown tagged fields consumed {src.tell()} of {len(data)} bytes"
    return None


def do_nullable(case: Case, null: bool) -> str | None:
    """The nullable variants (KIP-893 marker) of the same class's writer and reader, for a value or for null."""
    from kio.serial import entity_reader, entity_writer

    want = b"\xff" if null else b"\x01" + case.ref
    value = None if null else case.inst
    buf = io.BytesIO()
    entity_writer(case.cls, nullable=True)(buf, value)
    if buf.getvalue() != want:
        return f"nullable encode of {walk.class_path(case.cls)} ({'null' if null else 'value'}) gave {buf.getvalue()[:40].hex()}.. instead of {want[:40].hex()}.."
    src = io.BytesIO(want + b"\xee")
    got = entity_reader(case.cls, nullable=True)(src)
    if got != value or src.tell() != len(want):
        return f"nullable decode of {walk.class_path(case.cls)} ({'null' if null else 'value'}) gave a different value or position {src.tell()}/{len(want)}"
    return None


def do_fail(case: Case, rng) -> str | None:  # noqa: ANN001
    """A call that fails part-way: truncated decode, or a sink/source that raises."""
    from kio.serial import entity_reader, entity_writer
    from kio.serial.errors import BufferUnderflow

    kind = rng.randrange(5)
    if kind == 4 and case.ref:
        # a complete but malformed message: a string cut inside a multi-byte character (what an incremental decoder would keep for
        # "the next chunk"), or structure-aware corruption of the valid encoding.  Whatever it raises is not this check's business.
        from .faults import _mutate

        try:
            raw, layout = refcodec.encode(case.spec, case.tree)
        except Exception:  # noqa: BLE001
            return None
        data = raw
        strings = [e for e in layout if e[2] == "payload" and e[1] >= 1]
        if strings and rng.random() < 0.5:
            off, ln, _, _ = rng.choice(strings)
            data = raw[:off + ln - 1] + rng.choice((b"\xc3", b"\xe2", b"\xf0")) + raw[off + ln:]
        else:
            data, _ = _mutate(rng, raw, layout, raw)
        try:
            entity_reader(case.cls)(io.BytesIO(data))
        except Exception:  # noqa: BLE001
            pass
        return None
    if kind == 3:
        # the encode fails because of the *value*: every tagged field is non-default and a later one cannot be encoded (an integer out of
        # range), so the failure happens after earlier tagged fields were staged and before anything reached the sink; else: any bad int
        from .codec import _poison

        g = gen.Gen(rng, "canonical", big_prob=0.0, max_items=3)
        full = g.all_tags_nondefault(case.spec)
        poisoned = None
        if full is not None and len(case.spec.tagged) >= 2:
            last = case.spec.tagged[-1]
            if last.kind == "prim" and not last.array and last.ktype.startswith(("int", "uint")):
                poisoned = dict(full)
                poisoned[last.name] = 2**70
        if poisoned is None:
            poisoned = _poison(case.spec, case.tree, rng)
        if poisoned is None:
            return None
        try:
            entity_writer(case.cls)(io.BytesIO(), describe.tree_to_instance(case.spec, poisoned))
        except Exception:  # noqa: BLE001
            return None
        return None
    if kind == 0 and case.ref:
        try:
            entity_reader(case.cls)(io.BytesIO(case.ref[:rng.randrange(len(case.ref))]))
            return "decode of a strict prefix returned"
        except BufferUnderflow:
            return None
    if kind == 1:
        err = OSError("injected")
        try:
            entity_writer(case.cls)(WriteOnlySink(fail_at=rng.randrange(4), fail_exc=err), case.inst)
        except OSError as exc:
            return None if exc is err else "another OSError surfaced"
        return None  # fewer writes than the failing index
    err = ConnectionResetError("injected")
    try:
        entity_reader(case.cls)(ReadOnlySource(case.ref, fail_at=rng.randrange(4), fail_exc=err))
    except ConnectionResetError as exc:
        return None if exc is err else "another ConnectionResetError surfaced"
    return None


# ---------------------------------------------------------------------------------------
# part 1: histories


def run_history(res: Result, rng, classes: list[type], hid: str, reuse_max: int) -> int:  # noqa: ANN001
    from kio.serial import entity_reader, entity_writer

    common.cold(entity_reader)
    common.cold(entity_writer)
    chosen = rng.sample(classes, min(len(classes), rng.randint(5, 40)))
    cases = [Case(c, rng, f"{hid}/{k}") for k, c in enumerate(chosen)]
    ops = []
    for k in range(rng.randint(30, 160)):
        ops.append((rng.choice(("create_r", "create_w", "enc", "dec", "enc", "dec", "fail", "reuse", "nullable", "null", "fwd", "fwd")), rng.randrange(len(cases))))
    log = []
    compared = 0
    for op, ci in ops:
        case = cases[ci]
        log.append((op, walk.class_path(case.cls)))
        try:
            if op == "create_r":
                entity_reader(case.cls)
                if rng.random() < 0.3:
                    entity_reader(case.cls, nullable=True)
                continue
            if op == "create_w":
                entity_writer(case.cls)
                if rng.random() < 0.3:
                    entity_writer(case.cls, nullable=True)
                continue
            if op in ("nullable", "null"):
                why = do_nullable(case, op == "null")
                compared += 2
            elif op == "fail":
                why = do_fail(case, rng)
            elif op == "fwd":
                why = do_decode_forward(case, rng)
                res.count("forward_compatible_decodes_in_histories")
                compared += 1
            elif op == "reuse":
                why = None
                for _ in range(rng.randint(1, reuse_max)):
                    why = why or do_encode(case) or do_decode(case)
                    compared += 2
            else:
                why = do_encode(case) if op == "enc" else do_decode(case)
                compared += 1
        except Exception as exc:  # noqa: BLE001
            why = f"{op} raised {exc!r}"
        if why:
            res.violation(f"history:{op}:{case.cls.__name__}", f"after the history {[o for o, _ in log[-6:]]} the operation {op} misbehaved: {why}",
                          {"history": log, "class": walk.class_path(case.cls), "tree": case.tree, "why": why})
            break
    return compared


FRESH_SNIPPET = r"""
import sys, json
sys.path.insert(0, {verif!r})
from kv import common
from kv.checks import state
import random
res = common.Result("C19", "exploration", "quick")
rng = common.rng_for("C19", "fresh", {k})
classes = state.pool_classes(0, rng)
n = state.run_history(res, rng, classes, "fresh{k}", 50)
print(json.dumps({{"compared": n, "violations": res.violations}}))
"""


# ---------------------------------------------------------------------------------------
# part 2: fault enumeration


def fault_enumeration(res: Result, case: Case, positions: dict) -> None:
    from kio.serial import entity_reader, entity_writer

    w = entity_writer(case.cls)
    r = entity_reader(case.cls)
    probe = WriteOnlySink()
    w(probe, case.inst)
    nwrites = probe.observed_calls()
    src = ReadOnlySource(case.ref)
    r(src)
    nreads = src.observed_calls()
    cp = walk.class_path(case.cls)
    for exc_factory in (lambda: OSError(5, "injected I/O error"), lambda: ConnectionResetError("injected reset"), lambda: Boom("injected")):
        for k in range(nwrites):
            err = exc_factory()
            sink = WriteOnlySink(fail_at=k, fail_exc=err)
            res.count("fault_positions")
            positions["write"] = positions.get("write", 0) + 1
            try:
                w(sink, case.inst)
                res.violation(f"fault-swallowed:write:{type(err).__name__}", f"{cp}: the sink raised {type(err).__name__} at write call {k}/{nwrites} but the encoder returned normally",
                              {"class": cp, "tree": case.tree, "call": k})
            except BaseException as exc:  # noqa: BLE001
                if exc is not err:
                    res.violation(f"fault-replaced:write:{type(err).__name__}:{type(exc).__name__}", f"{cp}: the sink raised {type(err).__name__} at write call {k}, "
                                  f"the encoder raised {exc!r} instead", {"class": cp, "tree": case.tree, "call": k, "error": traceback.format_exc()})
            if not case.ref.startswith(sink.observed_bytes()):
                res.violation("fault-garbage:write", f"{cp}: bytes written before the failure at call {k} are not a prefix of the encoding",
                              {"class": cp, "tree": case.tree, "call": k, "written": sink.observed_bytes()})
            good = WriteOnlySink()
            try:
                w(good, case.inst)
                okay = good.observed_bytes() == case.ref
            except Exception:  # noqa: BLE001
                okay = False
            if not okay:
                res.violation("fault-poisons:write", f"{cp}: after a failure at write call {k} the same writer no longer produces the reference bytes",
                              {"class": cp, "tree": case.tree, "call": k})
                return
        for k in range(nreads):
            err = exc_factory()
            s = ReadOnlySource(case.ref, fail_at=k, fail_exc=err)
            res.count("fault_positions")
            positions["read"] = positions.get("read", 0) + 1
            try:
                r(s)
                res.violation(f"fault-swallowed:read:{type(err).__name__}", f"{cp}: the source raised {type(err).__name__} at read call {k}/{nreads} but the decoder returned normally",
                              {"class": cp, "tree": case.tree, "call": k})
            except BaseException as exc:  # noqa: BLE001
                if exc is not err:
                    res.violation(f"fault-replaced:read:{type(err).__name__}:{type(exc).__name__}", f"{cp}: the source raised {type(err).__name__} at read call {k}, "
                                  f"the decoder raised {exc!r} instead", {"class": cp, "tree": case.tree, "call": k, "error": traceback.format_exc()})
            try:
                okay = r(io.BytesIO(case.ref)) == case.inst
            except Exception:  # noqa: BLE001
                okay = False
            if not okay:
                res.violation("fault-poisons:read", f"{cp}: after a failure at read call {k} the same reader no longer decodes the reference bytes",
                              {"class": cp, "tree": case.tree, "call": k})
                return
    res.count("fault_instances")


# ---------------------------------------------------------------------------------------
# part 3: schedules


def schedules(res: Result, shard_i: int, shard_n: int, total: int, sigs: set, lines: set) -> None:
    from kio.serial import entity_reader, entity_writer

    sch = Scheduler()
    sch.start()
    try:
        rng0 = common.rng_for("C19", "sched-pool")
        classes = pool_classes(0, rng0)
        tops = [c for c in classes if c.__type__.name != "nested"]
        horizons: dict[tuple, int] = {}
        for k in range(shard_i, total, shard_n):
            rng = common.rng_for("C19", "sched", k)
            nthreads = rng.randint(2, 6)
            warm = rng.random() < 0.5
            same = rng.random() < 0.5
            d = rng.randint(1, 4)
            base = rng.choice(tops)
            thread_cases = []
            for t in range(nthreads):
                cls = base if same else rng.choice(tops)
                thread_cases.append([Case(cls, rng, f"s{k}t{t}o{o}") for o in range(rng.randint(1, 2))])
            common.cold(entity_reader)
            common.cold(entity_writer)
            if warm:
                for cs in thread_cases:
                    for case in cs:
                        entity_reader(case.cls)
                        entity_writer(case.cls)
            failures: list = []

            variant = {(t, o): rng.choice(("plain", "plain", "nullable", "null")) for t in range(nthreads) for o in range(2)}

            def body(t: int, cs=None) -> None:  # noqa: ANN001
                for o, case in enumerate(thread_cases[t]):
                    try:
                        kind = variant[(t, o)]
                        why = (do_encode(case) or do_decode(case)) if kind == "plain" else do_nullable(case, kind == "null")
                    except BaseException as exc:  # noqa: BLE001
                        why = f"raised {exc!r}: {traceback.format_exc()[-600:]}"
                    if why:
                        failures.append((t, o, why))

            hkey = (nthreads, warm, tuple(sorted(set(c.cls.__name__ for cs in thread_cases for c in cs))))
            horizon = horizons.get(hkey)
            if horizon is None:
                # calibration run without preemption: how many yield points does this workload have?
                s0, done0 = sch.run([lambda t=t: body(t) for t in range(nthreads)], seed=0, d=0, horizon=1)
                horizon = max(10, s0.points)
                horizons[hkey] = horizon
                res.count("calibration_runs")
                if failures:
                    res.violation("sched:sequential", f"sequential threads misbehaved: {failures[0][2]}", {"failures": failures[:3]})
                    failures.clear()
                common.cold(entity_reader)
                common.cold(entity_writer)
                if warm:
                    for cs in thread_cases:
                        for case in cs:
                            entity_reader(case.cls)
                            entity_writer(case.cls)
            s, done = sch.run([lambda t=t: body(t) for t in range(nthreads)], seed=common.stable_hash("sched", common.seed(), k), d=d, horizon=horizon)
            res.count("schedules")
            res.count("yield_points", s.points)
            res.count("ops_compared", sum(len(cs) for cs in thread_cases) * 2)
            if not done:
                res.inconclusive_because(f"schedule {k} did not finish within the watchdog")
                continue
            if s.trace:
                res.count("schedules_with_switch_inside_kio")
                sigs.add(s.signature())
                lines.update(f"{f}:{ln}" for f, ln in s.lines)
            if not failures:
                # quiescent point: the same objects once more, sequentially - what an interleaving left behind in a cached reader or writer
                # may only show on the next use
                for t in range(nthreads):
                    for o, case in enumerate(thread_cases[t]):
                        try:
                            why = do_encode(case) or do_decode(case)
                        except Exception as exc:  # noqa: BLE001
                            why = f"raised {exc!r}"
                        if why:
                            failures.append((t, o, "afterwards, sequentially: " + why))
                res.count("schedule_quiescent_rechecks")
            if failures:
                t, o, why = failures[0]
                res.violation(f"sched:{'warm' if warm else 'cold'}:{thread_cases[t][o].cls.__name__}",
                              f"thread {t} op {o} under schedule (seed={k}, d={d}, horizon={horizon}, warm={warm}, threads={nthreads}): {why}",
                              {"schedule": {"k": k, "d": d, "horizon": horizon, "warm": warm, "threads": nthreads, "switches": s.trace},
                               "class": walk.class_path(thread_cases[t][o].cls), "tree": thread_cases[t][o].tree, "failures": [f[2] for f in failures[:4]]})
            elif k % 997 == 0:
                res.sample({"schedule": k, "threads": nthreads, "warm": warm, "d": d, "horizon": horizon, "switches": s.trace})
    finally:
        sch.stop()


def _fresh_plan(k: int) -> tuple:
    """The workload of fresh-interpreter schedule k (a function of the seed and k only, so parent and child agree)."""
    rng = common.rng_for("C19", "fresh-sched", k)
    tops = [c for c in pool_classes(0, common.rng_for("C19", "sched-pool")) if c.__type__.name != "nested"]
    nthreads = rng.randint(2, 4)
    base = rng.choice(tops)
    same = rng.random() < 0.8
    classes = [base if same else rng.choice(tops) for _ in range(nthreads)]
    cases = [[Case(classes[t], rng, f"fs{k}t{t}")] for t in range(nthreads)]
    d = rng.randint(1, 3)
    return cases, d


def fresh_schedule_child(k: int, horizon: int) -> dict:
    """Runs in a brand-new interpreter: nothing has created a reader or writer yet, so this is a true cold start even for state
    that ``cache_clear()`` cannot reach (module-level tables)."""
    # import everything first: a thread preempted *inside an import* keeps the import lock, and under a baton scheduler the thread
    # that then needs the same module could never get it (an interleaving real threads cannot be stuck in)
    import kio.serial  # noqa: F401
    import kio.serial._implicit_defaults  # noqa: F401
    import kio.serial._introspect  # noqa: F401
    import kio.serial._parse  # noqa: F401
    import kio.serial._serialize  # noqa: F401
    import kio.serial.errors  # noqa: F401
    import kio.serial.readers  # noqa: F401
    import kio.serial.writers  # noqa: F401

    cases, d = _fresh_plan(k)
    failures: list = []

    def body(t: int) -> None:
        for case in cases[t]:
            try:
                why = do_encode(case) or do_decode(case)
            except BaseException as exc:  # noqa: BLE001
                why = f"raised {exc!r}: {traceback.format_exc()[-500:]}"
            if why:
                failures.append((t, walk.class_path(case.cls), why))

    sch = Scheduler()
    sch.start()
    try:
        s, done = sch.run([lambda t=t: body(t) for t in range(len(cases))], seed=common.stable_hash("fresh-sched", common.seed(), k), d=d, horizon=horizon)
    finally:
        sch.stop()
    return {"failures": failures[:3], "done": done, "points": s.points, "trace": s.trace, "signature": s.signature(), "d": d,
            "tree": common.jsonable(cases[failures[0][0]][0].tree) if failures else None}


def fresh_schedules(res: Result, shard_i: int, shard_n: int, total: int, sigs: set) -> None:
    from kio.serial import entity_reader, entity_writer

    sch = Scheduler()
    for k in range(shard_i, total, shard_n):
        cases, d = _fresh_plan(k)
        # calibrate the horizon here (sequential, caches cleared); the child must not do it, or it would no longer be cold
        common.cold(entity_reader)
        common.cold(entity_writer)
        sch.start()
        try:
            s0, _ = sch.run([(lambda t=t: [do_encode(c) or do_decode(c) for c in cases[t]]) for t in range(len(cases))], seed=0, d=0, horizon=1)
        finally:
            sch.stop()
        horizon = max(10, s0.points)
        code = (f"import sys, json; sys.path.insert(0, {str(common.VERIF)!r}); from kv.checks import state; "
                f"print(json.dumps(state.fresh_schedule_child({k}, {horizon}), default=str))")
        try:
            p = subprocess.run([sys.executable, "-c", code], capture_output=True, text=True, timeout=300, cwd=str(common.VERIF),
                               env=dict(os.environ, PYTHONHASHSEED="0", VERIF_SEED=str(common.seed())))
            doc = json.loads(p.stdout.strip().splitlines()[-1])
        except Exception as exc:  # noqa: BLE001
            res.inconclusive_because(f"fresh-interpreter schedule {k} did not report: {exc!r}")
            continue
        res.count("fresh_interpreter_schedules")
        if not doc["done"]:
            res.inconclusive_because(f"fresh-interpreter schedule {k} did not finish")
            continue
        if doc["trace"]:
            res.count("fresh_interpreter_schedules_with_switch")
            sigs.add("fresh:" + doc["signature"])
        if doc["failures"]:
            t, cp, why = doc["failures"][0]
            res.violation(f"sched:fresh-interpreter:{cp.rsplit(':', 1)[-1]}",
                          f"thread {t} in a fresh interpreter (cold start) under schedule (k={k}, d={doc['d']}, horizon={horizon}): {why}",
                          {"schedule": {"k": k, "d": doc["d"], "horizon": horizon, "switches": doc["trace"], "fresh_interpreter": True}, "class": cp, "tree": doc["tree"],
                           "failures": [f[2] for f in doc["failures"]]})


def synthetic_parents(res: Result, shard_i: int, shard_n: int, total: int) -> None:
    """User-defined entity classes are legitimate inputs of entity_reader/entity_writer.  Four parents refer to one shipped nested class
    in the four possible roles (plain, nullable, array, nullable array); their readers and writers are created and used in a random
    order (each nested class is used for one order only, so every order starts from a clean slate for that class) and every result
    is compared with the reference codec.  A plan shared between fields that look alike but are not shows up as order dependence."""
    import dataclasses
    from typing import ClassVar  # noqa: F401

    from kio.serial import entity_reader, entity_writer
    from kio.static.constants import EntityType

    nested = [c for c in walk.classes() if c.__type__.name == "nested" and 1 <= len(dataclasses.fields(c)) <= 6 and describe.max_depth(describe.spec_from_class(c)) == 0]
    rng0 = common.rng_for("C19", "synthetic")
    rng0.shuffle(nested)
    for k in range(shard_i, min(total, len(nested)), shard_n):
        N = nested[k]  # noqa: N806
        rng = common.rng_for("C19", "synthetic", k)
        roles = {"plain": N, "nullable": N | None, "array": tuple[N, ...], "nullable_array": tuple[N, ...] | None}
        parents = {}
        for role, ann in roles.items():
            ns = {"__type__": EntityType.nested, "__version__": N.__version__, "__flexible__": N.__flexible__}
            P = dataclasses.make_dataclass(f"Parent_{role}_{N.__name__}", [("before", int, dataclasses.field(metadata={"kafka_type": "int16"})), ("n", ann),  # noqa: N806
                                           ("after", int, dataclasses.field(metadata={"kafka_type": "int8"}))], frozen=True, slots=True, kw_only=True, namespace=ns)
            parents[role] = P
        g = gen.Gen(rng, "canonical", big_prob=0.0, max_items=3)
        cases = []
        for role, P in parents.items():  # noqa: N806
            spec = describe.spec_from_class(P)
            for _ in range(3):
                tree = g.struct(spec)
                cases.append((role, P, spec, tree, describe.tree_to_instance(spec, tree), refcodec.encode_bytes(spec, tree)))
        ops = [(kind, c) for c in cases for kind in ("enc", "dec")]
        rng.shuffle(ops)
        first_roles = []
        for kind, (role, P, spec, tree, inst, ref) in ops:  # noqa: N806
            if role not in first_roles:
                first_roles.append(role)
            res.count("synthetic_parent_ops")
            try:
                if kind == "enc":
                    buf = io.BytesIO()
                    entity_writer(P)(buf, inst)
                    ok, why = buf.getvalue() == ref, f"encoded {buf.getvalue()[:24].hex()}.. instead of {ref[:24].hex()}.."
                else:
                    ok, why = entity_reader(P)(io.BytesIO(ref)) == inst, "decoded to a different value"
            except Exception as exc:  # noqa: BLE001
                ok, why = False, f"raised {exc!r}"
            if not ok:
                res.violation(f"synthetic-parents:{role}:{kind}",
                              f"a user-defined parent holding {walk.class_path(N)} as {role} ({kind}) after parents in the roles {first_roles[:-1] or ['none']} were used first: {why}",
                              {"nested": walk.class_path(N), "role": role, "op": kind, "order": first_roles, "tree": tree})
                break
        res.count("synthetic_parent_orders")


def _map_prims(spec: describe.StructSpec, tree: dict, ktype: str, fn) -> int:  # noqa: ANN001
    """Replace every non-null value of primitive type ktype in the tree (in place); returns how many were replaced."""
    n = 0
    for fs in spec.fields:
        v = tree.get(fs.name)
        if fs.kind == "prim" and fs.ktype == ktype:
            if fs.array and isinstance(v, list):
                tree[fs.name] = [fn(x) if x is not None else None for x in v]
                n += len(v)
            elif not fs.array and v is not None:
                tree[fs.name] = fn(v)
                n += 1
        elif fs.kind == "struct" and isinstance(v, dict):
            n += _map_prims(fs.struct, v, ktype, fn)
        elif fs.kind == "struct" and isinstance(v, list):
            n += sum(_map_prims(fs.struct, x, ktype, fn) for x in v)
    return n


def alias_twins(res: Result, shard_i: int, shard_n: int) -> None:
    """Values that Python considers equal (and hashes alike) although they are different values on the wire, encoded one after the other
    by the same cached writer: a timestamp in both folds of an ambiguous wall-clock time of one zone (same tzinfo: == ignores fold), and
    0.0 / -0.0.  Anything that remembers a conversion by equality hands the second one the first one's bytes."""
    import copy as _copy

    from kio.serial import entity_reader, entity_writer

    from .codec import _has_timestamp

    try:
        import zoneinfo

        zones = [(zoneinfo.ZoneInfo("Europe/Berlin"), 1635642000000), (zoneinfo.ZoneInfo("America/New_York"), 1636264800000)]
    except Exception:  # noqa: BLE001
        zones = []
        res.count("alias_twins_no_zoneinfo")
    k = 0
    for cls in walk.classes():
        spec = describe.spec_from_class(cls)
        has_ts = bool(zones) and _has_timestamp(spec)
        has_float = any(fs.kind == "prim" and fs.ktype == "float64" for fs in spec.fields)
        if not (has_ts or has_float):
            continue
        k += 1
        if k % shard_n != shard_i:
            continue
        rng = common.rng_for("C19", "twins", walk.class_path(cls))
        for rep in range(3):
            base = gen.Gen(rng, "canonical", big_prob=0.0, max_items=3).struct(spec)
            zone, t0 = zones[rep % len(zones)] if has_ts else (None, 0)
            t = t0 - rng.randint(1, 3599999)  # inside the hour that is repeated: t (fold=0) and t + 1 h (fold=1) share a wall clock
            a, b = _copy.deepcopy(base), _copy.deepcopy(base)
            n = 0
            if has_ts:
                n += _map_prims(spec, a, "datetime_i64", lambda _x, t=t: t)
                _map_prims(spec, b, "datetime_i64", lambda _x, t=t: t + 3_600_000)
            if has_float:
                n += _map_prims(spec, a, "float64", lambda _x: 0.0)
                _map_prims(spec, b, "float64", lambda _x: -0.0)
            if not n:
                continue
            describe.INSTANCE_TZ = zone
            try:
                ia, ib = describe.tree_to_instance(spec, a), describe.tree_to_instance(spec, b)
            finally:
                describe.INSTANCE_TZ = None
            ra, rb = refcodec.encode_bytes(spec, a), refcodec.encode_bytes(spec, b)
            if ra == rb:
                continue
            res.count("alias_twin_pairs")
            # ... and the same through the cached reader: first/twin/first/twin, judged by what the result re-encodes to under the
            # *reference* codec (== cannot tell -0.0 from 0.0)
            rd = entity_reader(cls)
            for step, (ref, name) in enumerate(((ra, "first"), (rb, "twin"), (ra, "first"), (rb, "twin"))):
                try:
                    got = rd(io.BytesIO(ref))
                    back = refcodec.encode_bytes(spec, describe.instance_to_tree(spec, got))
                    bad = None if back == ref else f"gave a value that stands for {back[:48].hex()}.. instead of {ref[:48].hex()}.. (first diff at {refcodec.first_diff(back, ref)})"
                except Exception as exc:  # noqa: BLE001
                    bad = f"raised {exc!r}"
                res.count("alias_twin_decodes")
                if bad:
                    res.violation(f"alias-twin-decode:{'timestamp-fold' if has_ts else 'signed-zero'}",
                                  f"{walk.class_path(cls)}: decoding the {name} of two encodings whose values are ==-equal but different (step {step} of first/twin/first/twin) {bad}",
                                  {"class": walk.class_path(cls), "first": a, "twin": b, "step": step})
                    break
            w = entity_writer(cls)
            for step, (inst, ref, name) in enumerate(((ia, ra, "first"), (ib, rb, "twin"), (ia, ra, "first"), (ib, rb, "twin"))):
                buf = io.BytesIO()
                try:
                    w(buf, inst)
                    bad = None if buf.getvalue() == ref else f"gave {buf.getvalue()[:48].hex()}.. instead of {ref[:48].hex()}.. (first diff at {refcodec.first_diff(buf.getvalue(), ref)})"
                except Exception as exc:  # noqa: BLE001
                    bad = f"raised {exc!r}"
                res.count("alias_twin_encodes")
                if bad:
                    res.violation(f"alias-twin:{'timestamp-fold' if has_ts else 'signed-zero'}",
                                  f"{walk.class_path(cls)}: encoding the {name} of two ==-equal but different values (step {step} of first/twin/first/twin, "
                                  f"{'same wall clock in both folds of ' + str(zone) if has_ts else '0.0 / -0.0'}) {bad}",
                                  {"class": walk.class_path(cls), "first": a, "twin": b, "zone": str(zone), "step": step})
                    break


CONTENDED = ("kio.schema.alter_client_quotas.v1.request:OpData", "kio.schema.describe_client_quotas.v1.response:ValueData",
             "kio.schema.create_delegation_token.v2.response:CreateDelegationTokenResponse", "kio.schema.offset_commit.v2.request:OffsetCommitRequestPartition",
             "kio.schema.sasl_authenticate.v0.request:SaslAuthenticateRequest", "kio.schema.broker_heartbeat.v1.request:BrokerHeartbeatRequest",
             "kio.schema.write_txn_markers.v0.request:WritableTxnMarkerTopic", "kio.schema.describe_transactions.v0.response:TransactionState",
             "kio.schema.produce.v9.response:PartitionProduceResponse", "kio.schema.heartbeat.v4.response:HeartbeatResponse")


def contention_schedules(res: Result, shard_i: int, shard_n: int, sigs: set) -> None:
    """Two threads encode (then decode) *different values of the same small class* - one class per primitive kind (float64, durations of
    both widths, timestamps, bytes, uuid arrays, int arrays, error codes) - and thread 0 is preempted exactly once, at every one of its
    yield points in turn: whatever a primitive keeps outside the call (a scratch buffer, a packer, a decoder) is then used by the other
    thread in between.  Exhaustive in the single preemption point."""
    from kio.serial import entity_reader, entity_writer

    sch = Scheduler()
    sch.start()
    try:
        for k, path in enumerate(CONTENDED):
            if k % shard_n != shard_i:
                continue
            try:
                cls = walk.resolve(path)
            except Exception:  # noqa: BLE001
                res.count("contended_class_missing")
                continue
            rng = common.rng_for("C19", "contention", path)
            a = Case(cls, rng, "A")
            b = Case(cls, rng, "B")
            for _ in range(20):
                if b.ref != a.ref:
                    break
                b = Case(cls, rng, "B")
            entity_writer(cls), entity_reader(cls)
            errors: list = []

            def body(case: Case, who: int) -> None:
                for op in (do_encode, do_decode, do_encode):
                    try:
                        bad = op(case)
                    except Exception as exc:  # noqa: BLE001
                        bad = f"{op.__name__} raised {exc!r}"
                    if bad:
                        errors.append((who, bad))

            s0, done = sch.run([lambda: body(a, 0), lambda: body(b, 1)], seed=0, d=0, horizon=1)
            horizon = max(1, s0.points)
            res.count("contention_classes")
            for point in range(1, horizon + 1):
                errors.clear()
                s1, done = sch.run([lambda: body(a, 0), lambda: body(b, 1)], seed=point, d=1, horizon=horizon, at={point})
                res.count("contention_schedules")
                sigs.add("c:" + s1.signature())
                if not done:
                    res.inconclusive_because(f"contention schedule for {path} did not finish")
                    break
                if not errors:
                    # at the quiescent point: whatever the interleaving left behind in the cached reader/writer shows when the same two
                    # objects are used once more, sequentially
                    for who, case in ((1, b), (0, a)):
                        for op in (do_encode, do_decode):
                            try:
                                bad = op(case)
                            except Exception as exc:  # noqa: BLE001
                                bad = f"{op.__name__} raised {exc!r}"
                            if bad:
                                errors.append((who, "afterwards, sequentially: " + bad))
                    res.count("contention_quiescent_rechecks")
                if errors:
                    who, bad = errors[0]
                    res.violation(f"contention:{cls.__name__}", f"two threads using the readers/writers of {path} with different values, thread 0 preempted once at yield point {point} of {horizon}"
                                  f" ({s1.trace[:1]}): thread {who}: {bad}", {"class": path, "point": point, "horizon": horizon, "trace": s1.trace, "a": a.tree, "b": b.tree})
                    break
    finally:
        sch.stop()


def stress(res: Result, seconds: float, nthreads: int = 16) -> None:
    """Uncontrolled run: real GIL scheduling with a tiny switch interval (below line granularity)."""
    import time

    from kio.serial import entity_reader, entity_writer

    rng = common.rng_for("C19", "stress")
    classes = [c for c in pool_classes(0, rng) if c.__type__.name != "nested"]
    old = sys.getswitchinterval()
    sys.setswitchinterval(1e-6)
    failures: list = []
    counts = [0] * nthreads
    stop = time.time() + seconds
    rounds = 0
    try:
        while time.time() < stop and not failures:
            rounds += 1
            common.cold(entity_reader)
            common.cold(entity_writer)
            per_thread = [[Case(rng.choice(classes), rng, f"x{rounds}t{t}o{o}") for o in range(6)] for t in range(nthreads)]
            barrier = threading.Barrier(nthreads)

            def body(t: int) -> None:
                barrier.wait()
                for case in per_thread[t]:
                    try:
                        why = do_encode(case) or do_decode(case)
                    except BaseException as exc:  # noqa: BLE001
                        why = f"raised {exc!r}"
                    counts[t] += 2
                    if why:
                        failures.append((walk.class_path(case.cls), case.tree, why))

            ts = [threading.Thread(target=body, args=(t,)) for t in range(nthreads)]
            for t in ts:
                t.start()
            for t in ts:
                t.join(60)
    finally:
        sys.setswitchinterval(old)
    res.count("stress_rounds", rounds)
    res.count("stress_ops_compared", sum(counts))
    if failures:
        cp, tree, why = failures[0]
        res.violation("stress", f"uncontrolled 16-thread run: {why}", {"class": cp, "tree": tree})


# ---------------------------------------------------------------------------------------


def c19_worker(res: Result, i: int, n: int) -> None:
    quick = res.tier == "quick"
    # part 1
    rng = common.rng_for("C19", "histories", i)
    classes = pool_classes(60 if quick else 170, rng)
    nh = (192 if quick else 9600) // n
    compared = 0
    for h in range(nh):
        compared += run_history(res, common.rng_for("C19", "history", i, h), classes, f"h{i}.{h}", 20 if quick else 300)
        res.count("histories")
    res.count("history_ops_compared", compared)
    # fresh-interpreter histories
    for k in range(i, 16 if quick else 256, n):
        code = FRESH_SNIPPET.format(verif=str(common.VERIF), k=k)
        try:
            p = subprocess.run([sys.executable, "-c", code], capture_output=True, text=True, timeout=300,
                               env=dict(os.environ, PYTHONHASHSEED="0"), cwd=str(common.VERIF))
            doc = json.loads(p.stdout.strip().splitlines()[-1])
        except Exception as exc:  # noqa: BLE001
            res.inconclusive_because(f"fresh-interpreter history {k} did not report: {exc!r}")
            continue
        res.count("fresh_interpreter_histories")
        res.count("history_ops_compared", doc["compared"])
        for v in doc["violations"]:
            res.violations.append(v)
    # part 2
    positions: dict[str, int] = {}
    frng = common.rng_for("C19", "faults", i)
    fclasses = [c for k, c in enumerate(pool_classes(200 if quick else 1200, common.rng_for("C19", "faultpool"))) if k % n == i]
    for cls in fclasses:
        for _ in range(1 if quick else 3):
            case = Case(cls, frng, "f")
            if len(case.ref) > 1500:
                continue
            fault_enumeration(res, case, positions)
    res.coverage["fault_positions_by_call_kind"] = positions
    # part 3
    sigs: set = set()
    lines: set = set()
    schedules(res, i, n, 3200 if quick else 240000, sigs, lines)
    fresh_schedules(res, i, n, 160 if quick else 4800, sigs)
    synthetic_parents(res, i, n, 96 if quick else 600)
    alias_twins(res, i, n)
    contention_schedules(res, i, n, sigs)
    res.coverage["distinct_schedule_signatures"] = len(sigs)
    res.coverage["preemption_lines"] = sorted(lines)
    if i == 0:
        stress(res, 4.0 if quick else 60.0)


def run(prop: str, tier_: str) -> int:
    res = Result("C19", "exploration", tier_)
    errs = refcodec.self_test()
    if errs:
        res.inconclusive_because("reference codec self-test failed: " + "; ".join(errs[:3]))
    shard.run(res, "kv.checks.state:c19_worker", timeout=1500 if tier_ == "quick" else 7200)
    c = res.counters
    res.coverage["preemption_lines_count"] = len(res.coverage.get("preemption_lines", []))
    res.coverage["distinct_schedule_signatures_note"] = "sum over workers of per-worker distinct signatures (workers run disjoint schedule indices)"
    floor_ok = (c.get("histories", 0) > 50 and c.get("fresh_interpreter_histories", 0) >= 8 and c.get("fault_positions", 0) > 1000
                and c.get("schedules_with_switch_inside_kio", 0) > 100 and res.coverage.get("distinct_schedule_signatures", 0) > 50
                and c.get("stress_ops_compared", 0) > 100 and c.get("fresh_interpreter_schedules_with_switch", 0) >= 20)
    res.assumptions += ["thread interleavings are explored at source-line granularity of kio/serial/* and kio/_utils.py with 1-4 preemptions; finer ones only by the "
                        "uncontrolled stress run under the GIL", "reference results are computed once, single-threaded, before each run (the oracle has no history)"]
    return res.finish(
        c.get("histories", 0) + c.get("fresh_interpreter_histories", 0) + c.get("fault_positions", 0) + c.get("schedules", 0) + c.get("stress_rounds", 0),
        int(res.coverage.get("distinct_schedule_signatures", 0)),
        "three parts on a pool of classes sharing nested plans: (1) random create/use/fail/reuse histories with caches cleared between them and "
        "histories in fresh interpreters; (2) for each instance the stream raises OSError/ConnectionResetError/a BaseException at every write and "
        "read call index, the error must surface unchanged and the same closure must work afterwards; (3) 2-6 real threads under a baton scheduler "
        "preempting at 1-4 uniformly drawn source lines, cold and warm cache, every result compared with the history-free reference, also as "
        "true cold starts in fresh interpreters, plus an uncontrolled 16-thread stress run; distinct = distinct schedule signatures (switch sequences) with a switch inside kio.serial",
        floor_ok,
    )


def replay(prop: str, path: str) -> int:
    """Histories, fault positions and schedules are functions of (seed, tier): re-run with the recorded ones."""
    return common.replay_by_rerun(prop, path, run)
