"""C15: entities are immutable, hashable value objects."""
from __future__ import annotations

import copy
import dataclasses
import datetime
import enum
import hashlib
import io
import pickle
import traceback
import uuid

from .. import common, describe, gen, refcodec, shard, walk
from ..common import Result
from .codec import _ZONES, _has_timestamp, _my_classes

IMMUTABLE_LEAVES = (int, float, str, bytes, type(None), datetime.datetime, datetime.timedelta, uuid.UUID, enum.Enum)


_EXACT_LEAVES = (int, float, str, bytes, bool, type(None), datetime.datetime, datetime.timedelta, datetime.timezone, uuid.UUID)


def _stateful_leaf(v: object, path: str) -> str | None:
    """A leaf of a subclass of an immutable builtin (kio's own value types are such) is still a value only if looking at it does not change
    it: no attribute that stores what it computed in the instance (functools.cached_property and the like)."""
    import functools

    t = type(v)
    if t in _EXACT_LEAVES or isinstance(v, enum.Enum):
        return None
    before = dict(getattr(v, "__dict__", None) or {})
    for klass in t.__mro__:
        if klass.__module__ in ("builtins", "datetime", "uuid", "enum"):
            continue
        for name, attr in vars(klass).items():
            if isinstance(attr, functools.cached_property):
                return f"{path} ({t.__name__} keeps per-instance state: cached_property {name!r})"
            if isinstance(attr, property) or (hasattr(attr, "__get__") and hasattr(attr, "__set_name__") and not callable(attr)):
                try:
                    getattr(v, name)
                except Exception:  # noqa: BLE001
                    pass
    after = dict(getattr(v, "__dict__", None) or {})
    if after != before:
        return f"{path} ({t.__name__} changed its own state when its attributes were read: {sorted(set(after) - set(before))})"
    return None


def mutable_path(v: object, path: str = "") -> str | None:
    """Path to the first mutable value inside an entity, or None."""
    if isinstance(v, IMMUTABLE_LEAVES):
        return _stateful_leaf(v, path)
    if isinstance(v, tuple):
        for k, x in enumerate(v):
            p = mutable_path(x, f"{path}[{k}]")
            if p:
                return p
        return None
    if dataclasses.is_dataclass(v) and not isinstance(v, type):
        params = type(v).__dataclass_params__
        if not params.frozen:
            return path + " (non-frozen dataclass)"
        for f in dataclasses.fields(v):
            p = mutable_path(getattr(v, f.name), f"{path}.{f.name}")
            if p:
                return p
        return None
    return f"{path} ({type(v).__name__})"


class _ChunkedSource:
    """A raw stream: read(n) returns at most `chunk` bytes (like an unbuffered socket or pipe)."""

    def __init__(self, data: bytes, chunk: int) -> None:
        self._data, self._pos, self._chunk = data, 0, chunk

    def read(self, n: int = -1) -> bytes:
        if n is None or n < 0:
            n = len(self._data) - self._pos
        out = self._data[self._pos:self._pos + min(n, self._chunk)]
        self._pos += len(out)
        return out


def check_class(res: Result, cls: type) -> None:
    cp = walk.class_path(cls)
    params = cls.__dataclass_params__
    res.count("class_level_checks")
    problems = []
    if not params.frozen:
        problems.append("not frozen")
    if not params.eq:
        problems.append("eq=False")
    if "__slots__" not in vars(cls):
        problems.append("no __slots__")
    if any(not f.kw_only for f in dataclasses.fields(cls)):
        problems.append("positional fields")
    if cls.__hash__ is None:
        problems.append("unhashable (__hash__ is None)")
    if problems:
        res.violation(f"class-options:{cp}", f"{cp}: dataclass options: {', '.join(problems)}", {"class": cp, "problems": problems})


def check_instance(res: Result, cls: type, inst: object, rebuild, perturb, snapshot, ops: dict, label: str) -> None:  # noqa: ANN001
    cp = walk.class_path(cls) if cls.__module__.startswith("kio.schema") else f"{cls.__module__}:{cls.__name__}"

    def bad(kind: str, msg: str, **kw: object) -> None:
        res.violation(f"{kind}:{cp}", f"{cp} ({label}): {msg}", dict({"class": cp, "instance": repr(inst)[:1500]}, **kw))

    def op(name: str) -> None:
        ops[name] = ops.get(name, 0) + 1
        res.count("operations")

    op("immutable-values")
    p = mutable_path(inst)
    if p:
        bad("mutable-value", f"holds a mutable value at {p}")
    try:
        before = snapshot(inst)
    except Exception as exc:  # noqa: BLE001
        bad("unrepresentable-value", f"holds a value that is not of its declared (immutable) type: {exc}")
        return
    fields = dataclasses.fields(inst)
    # --- attribute assignment / deletion
    for f in fields[:6] if len(fields) > 6 else fields:
        old = getattr(inst, f.name)
        op("setattr-field")
        try:
            setattr(inst, f.name, old)
            bad("mutable-setattr", f"setattr({f.name}) succeeded")
        except (dataclasses.FrozenInstanceError, AttributeError, TypeError):
            pass
        op("delattr-field")
        try:
            delattr(inst, f.name)
            bad("mutable-delattr", f"delattr({f.name}) succeeded")
        except (dataclasses.FrozenInstanceError, AttributeError, TypeError):
            pass
        if getattr(inst, f.name, "<gone>") is not old:
            bad("mutated", f"field {f.name} changed after a rejected assignment/deletion")
    op("setattr-new")
    try:
        setattr(inst, "brand_new_attribute", 1)
        bad("mutable-new-attr", "assignment of a new attribute succeeded")
    except (dataclasses.FrozenInstanceError, AttributeError, TypeError):
        pass
    op("no-dict")
    if hasattr(inst, "__dict__"):
        bad("has-dict", "instance has a __dict__")
    # --- equality and hash
    op("eq-rebuild")
    twin = rebuild()
    if twin is inst:
        bad("oracle", "rebuild returned the same object")
    if not (inst == twin) or inst != twin:
        bad("unequal-twin", "an identical rebuild compares unequal")
    try:
        op("hash")
        if hash(inst) != hash(twin) or hash(inst) != hash(inst):
            bad("hash-inconsistent", "equal instances hash differently")
        if len({inst, twin}) != 1:
            bad("hash-set", "equal instances are two set members")
    except TypeError as exc:
        bad("unhashable", f"hash() raised {exc!r}")
    for name, other in perturb():
        op("perturbation")
        res.count("perturbations")
        if inst == other or not (inst != other):
            bad("equal-despite-difference", f"instance differing in field {name} compares equal", other=repr(other)[:1500])
    if inst == before or inst == "x" or inst == None:  # noqa: E711
        bad("equal-to-foreign", "compares equal to a foreign object")
    # --- copies
    copies = []
    try:
        op("copy.copy")
        copies.append(("copy.copy", copy.copy(inst), False))
        op("copy.deepcopy")
        copies.append(("copy.deepcopy", copy.deepcopy(inst), False))
        op("dataclasses.replace")
        copies.append(("dataclasses.replace", dataclasses.replace(inst), True))
        if fields:
            f0 = fields[0]
            op("dataclasses.replace-field")
            copies.append(("dataclasses.replace(field=same)", dataclasses.replace(inst, **{f0.name: getattr(inst, f0.name)}), True))
        for proto in range(0, pickle.HIGHEST_PROTOCOL + 1):
            op(f"pickle-{proto}")
            copies.append((f"pickle protocol {proto}", pickle.loads(pickle.dumps(inst, protocol=proto)), True))  # noqa: S301
    except Exception as exc:  # noqa: BLE001
        bad(f"copy-raises:{type(exc).__name__}", f"copy/replace/pickle raised {exc!r}", error=traceback.format_exc())
    for how, c, must_be_new in copies:
        if type(c) is not type(inst) or not (c == inst):
            bad(f"copy-unequal:{how.split()[0]}", f"{how} produced an unequal object", copy=repr(c)[:1500])
        elif must_be_new and c is inst:
            bad(f"copy-same-object:{how.split()[0]}", f"{how} returned the original object instead of a new one")
        else:
            try:
                h0 = hash(inst)
            except TypeError:
                continue  # (the original is not hashable: reported elsewhere)
            try:
                if hash(c) != h0:
                    bad(f"copy-hash:{how.split()[0]}", f"{how} produced an object with a different hash")
            except TypeError as exc:
                bad(f"copy-unhashable:{how.split()[0]}", f"{how} produced an equal object that cannot be hashed: {exc!r}")
    if snapshot(inst) != before:
        bad("original-changed", "the original changed while being copied/replaced/pickled")


def minimal_change(v: object, finest_time: datetime.timedelta) -> object:
    """The smallest change of a field value that makes it a different value (None = no such change known)."""
    import math

    if isinstance(v, bool):
        return not v
    if isinstance(v, enum.Enum):
        members = list(type(v))
        return members[(members.index(v) + 1) % len(members)] if len(members) > 1 else None
    if isinstance(v, int):
        return v + 1
    if isinstance(v, float):
        return math.nextafter(v, math.inf) if math.isfinite(v) else 0.0
    if isinstance(v, str):
        return v + "x"
    if isinstance(v, bytes):
        return v + b"\x00"
    if isinstance(v, datetime.datetime):
        try:
            return v + finest_time
        except OverflowError:
            return v - finest_time
    if isinstance(v, datetime.timedelta):
        try:
            return v + finest_time
        except OverflowError:
            return v - finest_time
    if isinstance(v, uuid.UUID):
        return uuid.UUID(int=(v.int + 1) % (1 << 128))
    if isinstance(v, tuple):
        for k, x in enumerate(v):
            y = minimal_change(x, finest_time) if not dataclasses.is_dataclass(x) else minimal_instance_change(x, finest_time)
            if y is not None:
                return v[:k] + (y,) + v[k + 1:]
        return None
    if dataclasses.is_dataclass(v) and not isinstance(v, type):
        return minimal_instance_change(v, finest_time)
    return None


def minimal_instance_change(inst: object, finest_time: datetime.timedelta) -> object:
    for f in dataclasses.fields(inst):
        y = minimal_change(getattr(inst, f.name), finest_time)
        if y is not None:
            return dataclasses.replace(inst, **{f.name: y})
    return None


def minimal_perturbations(inst: object, finest_time: datetime.timedelta) -> list:
    """For every field one instance that differs from inst by the smallest possible amount in that field only."""
    out = []
    for f in dataclasses.fields(inst):
        y = minimal_change(getattr(inst, f.name), finest_time)
        if y is not None and y != getattr(inst, f.name):
            out.append((f.name + " (minimal change)", dataclasses.replace(inst, **{f.name: y})))
    return out


def _perturbations(spec: describe.StructSpec, tree: dict, inst: object, g: gen.Gen, limit: int):  # noqa: ANN202
    out = []
    fields = list(spec.fields)
    g.rng.shuffle(fields)
    for fs in fields[:limit]:
        cur = getattr(inst, fs.name)
        for _ in range(12):
            t2 = dict(tree)
            t2[fs.name] = g.realise(fs, g.random_cell(fs, 1), 1)
            try:
                other = describe.tree_to_instance(spec, t2)
            except Exception:  # noqa: BLE001
                continue
            if getattr(other, fs.name) != cur:
                out.append((fs.name, other))
                break
    return out


def c15_worker(res: Result, i: int, n: int) -> None:
    from kio.serial import entity_reader, entity_writer

    classes = _my_classes(i, n)
    ops: dict[str, int] = {}
    distinct: set[bytes] = set()
    per = 8 if res.tier == "quick" else 400
    for cls in classes:
        check_class(res, cls)
        spec = describe.spec_from_class(cls)
        rng = common.rng_for("C15", walk.class_path(cls))
        g = gen.Gen(rng, "canonical", big_prob=0.0)
        trees = g.each_choice(spec, extra_random=0)
        rng.shuffle(trees)
        trees = trees[:per - 1] + [g.struct(spec)]
        if res.tier == "thorough":
            trees += [g.struct(spec) for _ in range(per - len(trees))]
        huge = g.huge_payload_trees(spec)  # what the decoder hands out for large payloads must be immutable too
        res.count("huge_payload_instances", len(huge))
        trees = huge + trees
        nhuge = len(huge)
        zoned = _has_timestamp(spec)
        for k, tree in enumerate(trees):
            # timestamps expressed in other zones (fixed offsets, zones with DST folds): the instance - and every rebuild, copy, pickle of it -
            # holds zone-aware datetimes whose == is Python's (PEP 495), which is what "equal" means for a copy
            describe.INSTANCE_TZ = _ZONES[k % len(_ZONES)] if zoned and k % 2 else None
            if describe.INSTANCE_TZ is not None:
                res.count("instances_with_timestamps_in_other_zones")
            inst = describe.tree_to_instance(spec, tree)
            snap = lambda x, s=spec: refcodec.encode_bytes(s, describe.instance_to_tree(s, x))  # noqa: E731
            check_instance(res, cls, inst, lambda t=tree: describe.tree_to_instance(spec, t),
                           lambda t=tree, x=inst: _perturbations(spec, t, x, g, 4 if res.tier == "quick" else 8)
                           + minimal_perturbations(x, datetime.timedelta(milliseconds=1))[: 6 if res.tier == "quick" else 40], snap, ops, "built")
            res.count("instances")
            # what the decoder hands out must be a value object too
            if k % 2 == 0 or k < nhuge:
                try:
                    buf = io.BytesIO()
                    entity_writer(cls)(buf, inst)
                    dec = entity_reader(cls)(io.BytesIO(buf.getvalue()))
                except Exception:  # noqa: BLE001
                    res.count("decode_failed_skipped")
                else:
                    check_instance(res, cls, dec, lambda b=buf.getvalue(): entity_reader(cls)(io.BytesIO(b)), lambda: [], snap, ops, "decoded")
                    res.count("decoded_instances")
            if k % 3 == 1 or k < nhuge:
                # the io module's own stream types (code may single them out with isinstance): a BufferedReader over a raw stream
                try:
                    from .faults import _EndedRaw

                    raw = refcodec.encode_bytes(spec, tree)
                    dec3 = entity_reader(cls)(io.BufferedReader(_EndedRaw(raw), buffer_size=rng.choice((64, 8192))))
                except Exception:  # noqa: BLE001
                    res.count("buffered_reader_decode_failed_skipped")
                else:
                    res.count("buffered_reader_decoded")
                    check_instance(res, cls, dec3, lambda b=raw: entity_reader(cls)(io.BytesIO(b)), lambda: [], snap, ops, "decoded from an io.BufferedReader")
            if k % 3 == 2 or k < nhuge:
                # ... and a raw (io.RawIOBase) stream handed to the reader directly
                try:
                    from .faults import _EndedRaw

                    raw = refcodec.encode_bytes(spec, tree)
                    dec4 = entity_reader(cls)(_EndedRaw(raw))
                except Exception:  # noqa: BLE001
                    res.count("raw_stream_decode_failed_skipped")
                else:
                    res.count("raw_stream_decoded")
                    check_instance(res, cls, dec4, lambda b=raw: entity_reader(cls)(io.BytesIO(b)), lambda: [], snap, ops, "decoded from an io.RawIOBase stream")
            if k % 3 == 0 or k < nhuge:
                # a raw, unbuffered stream hands out fewer bytes than asked for; kio may refuse that (BufferUnderflow), but if it
                # does produce an entity, that entity must be a proper value object as well
                try:
                    raw = refcodec.encode_bytes(spec, tree)
                    dec2 = entity_reader(cls)(_ChunkedSource(raw, rng.choice((1, 3, 7, 4096))))
                except Exception:  # noqa: BLE001
                    res.count("short_read_source_refused")
                else:
                    res.count("short_read_source_decoded")
                    check_instance(res, cls, dec2, lambda b=raw: entity_reader(cls)(io.BytesIO(b)), lambda: [], snap, ops, "decoded from a short-reading source")
            describe.INSTANCE_TZ = None
            if gen.is_nontrivial(spec, tree):
                distinct.add(hashlib.sha256((cls.__module__ + cls.__name__).encode() + refcodec.encode_bytes(spec, tree)).digest()[:12])
            if res.counters["instances"] % 2003 == 1:
                res.sample({"class": walk.class_path(cls), "tree": tree})
        res.count("classes")
    if i == 0:
        _record_classes(res, ops, distinct)
        _decoded_record_objects(res, ops)
        cross_process_pickles(res)
    res.coverage["operations_by_kind"] = ops
    res.coverage["distinct_nontrivial_instances"] = len(distinct)


def _record_classes(res: Result, ops: dict, distinct: set) -> None:
    from kio.records.schema import NewRecordBatch, Record, RecordBatch, RecordHeader

    rng = common.rng_for("C15", "records")
    E = datetime.datetime(1970, 1, 1, tzinfo=datetime.timezone.utc)  # noqa: N806

    def header(r):  # noqa: ANN001, ANN202
        return dict(key=r.choice((None, b"", b"k", r.randbytes(5))), value=r.choice((None, b"", r.randbytes(9))))

    def when(r):  # noqa: ANN001, ANN202
        us = r.choice((0, 0, 1, 456, 999))
        if r.random() < 0.4:
            # zone-aware, within an hour of a DST change: ambiguous wall-clock times (both folds occur)
            z = r.choice(_ZONES)
            t = E + datetime.timedelta(milliseconds=r.choice((1635642000000, 1636264800000)) + r.randint(-3599999, 3599999), microseconds=us)
            return t.astimezone(z)
        return E + datetime.timedelta(milliseconds=r.randint(0, 2**41), microseconds=us)

    def record(r):  # noqa: ANN001, ANN202
        return dict(attributes=r.randint(-128, 127), timestamp=when(r),
                    offset=r.randint(0, 2**40),
                    key=r.choice((None, b"", r.randbytes(3))), value=r.choice((None, r.randbytes(11))),
                    headers=tuple(RecordHeader(**header(r)) for _ in range(r.randint(0, 3))))

    def batch(r):  # noqa: ANN001, ANN202
        return dict(base_offset=r.randint(0, 2**40), batch_length=r.randint(0, 2**31 - 1), partition_leader_epoch=r.randint(-1, 2**31 - 1), crc=r.getrandbits(32),
                    attributes=r.randint(0, 2**15 - 1), last_offset_delta=r.randint(0, 100), base_timestamp=r.randint(0, 2**41), max_timestamp=r.randint(0, 2**41),
                    producer_id=r.randint(-1, 2**62), producer_epoch=r.randint(-1, 2**15 - 1), base_sequence=r.randint(-1, 2**31 - 1),
                    records=tuple(Record(**record(r)) for _ in range(r.randint(0, 3))))

    def new_batch(r):  # noqa: ANN001, ANN202
        return dict(producer_id=r.randint(-1, 2**62), producer_epoch=r.randint(-1, 2**15 - 1), partition_leader_epoch=r.randint(-1, 2**31 - 1),
                    base_sequence=r.randint(-1, 2**31 - 1), records=tuple(Record(**record(r)) for _ in range(r.randint(1, 3))), attributes=r.randint(0, 2**15 - 1))

    for cls, mk in ((RecordHeader, header), (Record, record), (RecordBatch, batch), (NewRecordBatch, new_batch)):
        check_class(res, cls)
        for _ in range(20 if res.tier == "quick" else 400):
            kw = mk(rng)
            inst = cls(**kw)

            def perturb(kw=kw, cls=cls, mk=mk):  # noqa: ANN001, ANN202
                out = []
                for name in kw:
                    for _ in range(10):
                        alt = mk(rng)[name]
                        if alt != kw[name]:
                            out.append((name, cls(**dict(kw, **{name: alt}))))
                            break
                return out + minimal_perturbations(cls(**kw), datetime.timedelta(microseconds=1))

            check_instance(res, cls, inst, lambda kw=kw, cls=cls: cls(**kw), perturb, lambda x: repr(x), ops, "record class")
            res.count("record_class_instances")
            distinct.add(hashlib.sha256(repr(inst).encode()).digest()[:12])


def _decoded_record_objects(res: Result, ops: dict) -> None:
    """What kio.records.readers.read_batch hands out (batch, records, headers) must be value objects too."""
    from kio.records.readers import read_batch

    from .. import recref
    from .records import gen_batch

    for k in range(12 if res.tier == "quick" else 300):
        rng = common.rng_for("C15", "decoded-batch", k)
        b, _ = gen_batch(rng, False, 4)
        if k % 3 == 0:
            b["records"][0]["headers"] = [(b"hk", b"hv"), (b"k2", None)]
        if k in (1, 7):
            # keys / values / header values beyond typical chunking thresholds
            b["records"][0].update(key=bytes(65537), value=bytes((1 << 20) + 1), headers=[(b"big", bytes(70000))])
        raw = recref.encode_batch(b)
        try:
            batch = read_batch(io.BytesIO(raw))
        except Exception:  # noqa: BLE001
            res.count("decoded_batch_read_failed_skipped")
            continue
        objs = [batch, *batch.records] + [h for r in batch.records for h in r.headers]
        for o in objs[:12]:
            def again(raw=raw, o=o, batch=batch):  # noqa: ANN001, ANN202
                nb = read_batch(io.BytesIO(raw))
                if o is batch:
                    return nb
                allo = [*batch.records] + [h for r in batch.records for h in r.headers]
                alln = [*nb.records] + [h for r in nb.records for h in r.headers]
                return alln[next(j for j, x in enumerate(allo) if x is o)]

            check_instance(res, type(o), o, again, lambda: [], lambda x: repr(x), ops, "read from a record batch")
            res.count("decoded_record_objects")


def xproc_build(n_classes: int = 60) -> list:
    """Pairs (x, twin) of equal, independently built instances: the four record classes and a spread of entity classes."""
    from kio.records.schema import NewRecordBatch, Record, RecordBatch, RecordHeader

    E = datetime.datetime(1970, 1, 1, tzinfo=datetime.timezone.utc)  # noqa: N806
    out = []

    def records():  # noqa: ANN202
        h = RecordHeader(key=b"hk", value=b"hv")
        r = Record(attributes=0, timestamp=E + datetime.timedelta(milliseconds=1503229838908), offset=7, key=b"key", value=b"value", headers=(h,))
        b = RecordBatch(base_offset=7, batch_length=80, partition_leader_epoch=-1, crc=12345, attributes=0, last_offset_delta=0, base_timestamp=1503229838908,
                        max_timestamp=1503229838908, producer_id=-1, producer_epoch=-1, base_sequence=-1, records=(r,))
        nb = NewRecordBatch(producer_id=1, producer_epoch=2, partition_leader_epoch=3, base_sequence=4, records=(r,), attributes=0)
        return [h, r, b, nb]

    out += list(zip(records(), records()))
    classes = walk.classes()
    for cls in classes[:: max(1, len(classes) // n_classes)]:
        spec = describe.spec_from_class(cls)
        tree = gen.Gen(common.rng_for("C15", "xproc", walk.class_path(cls)), "canonical", big_prob=0.0).struct(spec)
        out.append((describe.tree_to_instance(spec, tree), describe.tree_to_instance(spec, tree)))
    return out


_XPROC = """
import json, pickle, sys
sys.path.insert(0, {verif!r})
from kv.checks import values
mode, path = sys.argv[1], sys.argv[2]
if mode == "produce":
    pairs = values.xproc_build()
    used = [hash(x) for x, _ in pairs]          # x has been hashed (put in a set / dict) before it is pickled; its twin has not
    open(path, "wb").write(pickle.dumps(pairs, protocol={proto}))
    print(json.dumps({{"n": len(pairs)}}))
else:
    pairs = pickle.loads(open(path, "rb").read())
    bad = []
    for x, twin in pairs:
        name = type(x).__module__ + ":" + type(x).__qualname__
        if not (x == twin):
            bad.append([name, "unequal"])
        elif hash(x) != hash(twin) or x not in {{twin}}:
            bad.append([name, "hash"])
    print(json.dumps({{"n": len(pairs), "bad": bad}}))
"""


def cross_process_pickles(res: Result) -> None:
    """Pickles travel between processes: an instance that was hashed in one interpreter and unpickled in another (other hash seed) must be
    equal to, and hash like, an equal instance of that interpreter."""
    import json
    import os
    import subprocess
    import sys
    import tempfile

    for proto in (2, pickle.HIGHEST_PROTOCOL):
        with tempfile.TemporaryDirectory(prefix="kv-c15-") as d:
            path = os.path.join(d, "pairs.pickle")
            code = _XPROC.format(verif=str(common.VERIF), proto=proto)
            outs = []
            for mode, seed in (("produce", "101"), ("consume", "202")):
                try:
                    p = subprocess.run([sys.executable, "-c", code, mode, path], capture_output=True, text=True, timeout=300,
                                       env=dict(os.environ, PYTHONHASHSEED=seed), cwd=str(common.VERIF))
                    outs.append(json.loads(p.stdout.strip().splitlines()[-1]))
                except Exception as exc:  # noqa: BLE001
                    res.inconclusive_because(f"cross-process pickle check ({mode}) did not report: {exc!r}")
                    return
            res.count("cross_process_pickled_instances", outs[1]["n"])
            for name, what in outs[1]["bad"]:
                res.violation(f"cross-process-pickle:{what}:{name.split(':')[-1]}",
                              f"{name}: an instance hashed and pickled (protocol {proto}) in one interpreter, unpickled in another (different hash seed), "
                              + ("is not equal to an equal instance built there" if what == "unequal" else "hashes differently from an equal instance built there"),
                              {"class": name, "protocol": proto})


def run(prop: str, tier_: str) -> int:
    res = Result("C15", "exploration", tier_)
    shard.run(res, "kv.checks.values:c15_worker", timeout=900 if tier_ == "quick" else 5400)
    c = res.counters
    floor_ok = c.get("classes", 0) >= 1600 and c.get("perturbations", 0) > 1000 and c.get("record_class_instances", 0) > 0 and c.get("decoded_instances", 0) > 1000
    return res.finish(
        c.get("instances", 0) + c.get("decoded_instances", 0) + c.get("record_class_instances", 0), int(res.coverage.get("distinct_nontrivial_instances", 0)),
        "per class: dataclass options, then generated instances (each-choice + random, incl. nested and defaulted) and the instances the real "
        "decoder returns: setattr/delattr on fields and on a new name, no __dict__, only immutable values (recursively), equal to an identical "
        "rebuild and unequal to every single-field perturbation, hash consistent, copy/deepcopy/replace/pickle (all protocols) equal, new where "
        "promised, original unchanged (reference encoding snapshot before/after); also the four record classes; distinct = distinct non-trivial instances",
        floor_ok,
    )


def replay(prop: str, path: str) -> int:
    return common.replay_by_rerun(prop, path, run)
