"""C12: primitive value types denote exactly their wire domains."""
from __future__ import annotations

import datetime
import decimal
import fractions
import io
import math
import traceback

from .. import common, gen, shard
from ..common import Result
from ..describe import EPOCH, MS

UTC = datetime.timezone.utc
US = datetime.timedelta(microseconds=1)
MS = datetime.timedelta(milliseconds=1)
TD = datetime.timedelta

INT_RANGES = {
    "i8": (-(2**7), 2**7 - 1), "i16": (-(2**15), 2**15 - 1), "i32": (-(2**31), 2**31 - 1), "i64": (-(2**63), 2**63 - 1),
    "u8": (0, 2**8 - 1), "u16": (0, 2**16 - 1), "u32": (0, 2**32 - 1), "u64": (0, 2**64 - 1),
    "uvarint": (0, 2**35 - 1), "uvarlong": (0, 2**70 - 1), "svarint": (-(2**34), 2**34 - 1), "svarlong": (-(2**69), 2**69 - 1),
}
NESTING = (("i8", "i16"), ("i16", "i32"), ("i32", "i64"), ("u8", "u16"), ("u16", "u32"), ("u32", "u64"))
FIXED_WRITERS = {"i8": "int8", "i16": "int16", "i32": "int32", "i64": "int64", "u8": "uint8", "u16": "uint16", "u32": "uint32", "u64": "uint64"}
TD32 = (TD(milliseconds=-(2**31)), TD(milliseconds=2**31 - 1))
TD64 = (TD.min, TD.max - TD(days=1))
KNOWN_D8 = "D8-tzaware-beyond-year-9999-in-utc"


class NoneOffset(datetime.tzinfo):
    def utcoffset(self, dt):  # noqa: ANN001, ANN201
        return None

    def dst(self, dt):  # noqa: ANN001, ANN201
        return None

    def tzname(self, dt):  # noqa: ANN001, ANN201
        return "none"


class MyInt(int):
    pass


class MyFloat(float):
    pass


class MyTimedelta(datetime.timedelta):
    pass


class MyDatetime(datetime.datetime):
    """(what pendulum.DateTime, freezegun's FakeDatetime, pandas.Timestamp are: subclasses of the bound type)"""


def member_int(name: str, v: object) -> bool | None:
    """None = not decided by the property (bool, see DESIGN section 5.3)."""
    if isinstance(v, bool):
        return None
    if not isinstance(v, int):
        return False
    lo, hi = INT_RANGES[name]
    return lo <= v <= hi


def member_f64(v: object) -> bool:
    return isinstance(v, float) and math.isfinite(v)


def member_td(v: object, rng_: tuple) -> bool:
    return isinstance(v, datetime.timedelta) and rng_[0] <= v <= rng_[1]


def member_tzaware(v: object) -> bool | None:
    if not isinstance(v, datetime.datetime):
        return False
    if v.tzinfo is None or v.tzinfo.utcoffset(v) is None:
        return False
    if v.microsecond % 1000:
        # (a wall clock that is off by exactly the zone's sub-millisecond offset denotes a whole-millisecond instant: the documented
        # precision speaks of the microsecond component, so neither answer is demanded; only consistency is checked)
        return None if (v - EPOCH) % MS == TD(0) and (v - EPOCH) >= TD(0) else False
    if (v - EPOCH) % MS:
        return False  # whole-millisecond wall clock in a zone with a sub-millisecond UTC offset: the instant is not a whole millisecond
    return (v - EPOCH) >= TD(0)


class Ctx:
    def __init__(self, res: Result) -> None:
        import kio.static.primitive as P  # noqa: N812

        self.res = res
        self.P = P
        self.per_type: dict[str, dict[str, int]] = {}
        self.distinct: set = set()

    def probe(self, name: str, v: object, member: bool | None) -> bool | None:
        """isinstance / constructor / parse against the oracle; returns kio's isinstance verdict."""
        T = getattr(self.P, name)  # noqa: N806
        st = self.per_type.setdefault(name, {"values": 0, "members": 0, "non_members": 0, "undecided": 0, "writer_roundtrips": 0})
        st["values"] += 1
        self.res.count("probes")
        try:
            self.distinct.add((name, type(v).__name__, v if not isinstance(v, float) or v == v else "nan"))
        except TypeError:
            self.distinct.add((name, repr(v)))
        try:
            a = isinstance(v, T)
        except BaseException as exc:  # noqa: BLE001
            self.res.violation(f"isinstance-raises:{name}:{type(exc).__name__}", f"isinstance({_r(v)}, {name}) raised {exc!r}",
                               {"type": name, "value": _r(v), "error": traceback.format_exc()})
            return None
        outcomes = {}
        for label, call in (("call", T), ("parse", T.parse)):
            try:
                out = call(v)
                outcomes[label] = "same" if out is v else f"other:{out!r}"
            except TypeError:
                outcomes[label] = "TypeError"
            except BaseException as exc:  # noqa: BLE001
                outcomes[label] = f"raises:{type(exc).__name__}"
        if member is None:
            st["undecided"] += 1
            want = a
        else:
            st["members" if member else "non_members"] += 1
            want = member
            if a is not member:
                self.res.violation(f"membership:{name}:{'rejects-member' if member else 'accepts-non-member'}:{type(v).__name__}",
                                   f"isinstance({_r(v)}, {name}) is {a}, the documented domain says {member}",
                                   {"type": name, "value": _r(v), "isinstance": a, "oracle": member})
        exp = "same" if want else "TypeError"
        for label, got in outcomes.items():
            if got != exp:
                self.res.violation(f"constructor:{name}:{label}:{got.split(':')[0]}:{'member' if want else 'non-member'}",
                                   f"{name}{'.parse' if label == 'parse' else ''}({_r(v)}) -> {got}; expected {'the value itself' if want else 'TypeError'} "
                                   f"(isinstance says {a})", {"type": name, "value": _r(v), "outcome": got, "isinstance": a})
        return a

    def roundtrip(self, name: str, v: object, wname: str, rname: str, expect=None) -> None:  # noqa: ANN001
        import kio.serial.readers as R  # noqa: N812
        import kio.serial.writers as W  # noqa: N812

        buf = io.BytesIO()
        self.res.count("writer_roundtrips")
        self.per_type[name]["writer_roundtrips"] += 1
        try:
            getattr(W, wname)(buf, v)
        except Exception as exc:  # noqa: BLE001
            self.res.violation(f"writer-rejects-member:{name}:{type(exc).__name__}", f"{wname}({_r(v)}) raised {exc!r} although the value is a member of {name}",
                               {"type": name, "value": _r(v), "error": traceback.format_exc()})
            return
        try:
            back = getattr(R, rname)(io.BytesIO(buf.getvalue()))
        except Exception as exc:  # noqa: BLE001
            if name == "TZAware" and isinstance(v, datetime.datetime) and (v - EPOCH) // MS > gen.DT_MAX:
                self.res.known_or_violation(KNOWN_D8, f"reader-rejects-written-member:{name}:beyond-year-9999",
                                            f"{rname} rejects what {wname}({_r(v)}) wrote: {exc!r}",
                                            {"type": name, "value": _r(v), "bytes": buf.getvalue(), "error": traceback.format_exc()})
                return
            self.res.violation(f"reader-rejects-written-member:{name}:{type(exc).__name__}", f"{rname} rejects what {wname}({_r(v)}) wrote: {exc!r}",
                               {"type": name, "value": _r(v), "bytes": buf.getvalue(), "error": traceback.format_exc()})
            return
        if callable(expect):
            ok = expect(back)
        elif isinstance(v, datetime.datetime) and isinstance(back, datetime.datetime):
            # same instant; Python's == is deliberately False between zones for times inside a DST fold (PEP 495), which says
            # nothing about the value that was read back
            ok = back.tzinfo is not None and (back - EPOCH) == (v - EPOCH)
        else:
            ok = back == v and (not isinstance(v, float) or math.copysign(1, back) == math.copysign(1, v))
        if not ok:
            self.res.violation(f"member-not-read-back:{name}", f"{name} member {_r(v)} reads back as {_r(back)} through {wname}/{rname}",
                               {"type": name, "value": _r(v), "bytes": buf.getvalue(), "read_back": _r(back)})


def _r(v: object) -> str:
    r = repr(v)
    return r if len(r) < 160 else r[:160] + ".."


def int_pool(rng, nrand: int) -> list:  # noqa: ANN001
    vals: set[int] = set()
    for lo, hi in INT_RANGES.values():
        for d in (-2, -1, 0, 1, 2):
            vals.add(lo + d)
            vals.add(hi + d)
    for p in range(0, 72):
        for d in (-1, 0, 1):
            vals.add((1 << p) + d)
            vals.add(-(1 << p) + d)
    for _ in range(nrand):
        bits = rng.randint(1, 72)
        vals.add(rng.getrandbits(bits) * rng.choice((1, -1)))
    return sorted(vals)


NON_INTS = (1.0, 1.5, 0.0, -0.0, float("nan"), float("inf"), "1", "", None, b"1", b"", (1,), [1], decimal.Decimal(1), fractions.Fraction(1, 1),
            1 + 0j, datetime.timedelta(0), object)


def ints(c: Ctx, rng, nrand: int, deterministic: bool) -> None:  # noqa: ANN001
    pool = int_pool(rng, nrand) if deterministic else sorted({rng.getrandbits(rng.randint(1, 72)) * rng.choice((1, -1)) for _ in range(nrand)})
    verdicts: dict[str, dict[int, bool]] = {n: {} for n in INT_RANGES}
    for name in INT_RANGES:
        for v in pool:
            a = c.probe(name, v, member_int(name, v))
            if a is not None:
                verdicts[name][v] = a
            if a and name in FIXED_WRITERS and member_int(name, v):
                c.roundtrip(name, v, f"write_{FIXED_WRITERS[name]}", f"read_{FIXED_WRITERS[name]}")
        if deterministic:
            for v in NON_INTS:
                c.probe(name, v, False)
            for v in (True, False):
                c.probe(name, v, None)
            lo, hi = INT_RANGES[name]
            for v in (MyInt(lo), MyInt(hi)):
                c.probe(name, v, True)
            for v in (MyInt(lo - 1), MyInt(hi + 1)):
                c.probe(name, v, False)
    for narrow, wide in NESTING:
        for v, a in verdicts[narrow].items():
            c.res.count("nesting_checks")
            if a and not verdicts[wide].get(v, False):
                c.res.violation(f"nesting:{narrow}-in-{wide}", f"{v} is an instance of {narrow} but not of {wide}", {"value": v})
        T1, T2 = getattr(c.P, narrow), getattr(c.P, wide)  # noqa: N806
        if not issubclass(T1, T2):
            c.res.count("note_not_a_subclass")


def floats(c: Ctx, rng, nrand: int, deterministic: bool) -> None:  # noqa: ANN001
    import struct

    vals: list = []
    if deterministic:
        vals += [0.0, -0.0, 1.0, -1.0, 1.5, 5e-324, -5e-324, 2.2250738585072014e-308, 1.7976931348623157e308, -1.7976931348623157e308, 2.0**53, 1e308, math.pi]
        nonmembers = [float("inf"), float("-inf"), float("nan"), struct.unpack(">d", bytes.fromhex("7ff0000000000001"))[0], struct.unpack(">d", bytes.fromhex("fff8000000000000"))[0],
                      1, 0, -1, 2**53, True, False, "1.0", None, decimal.Decimal("1.5"), fractions.Fraction(3, 2), 1.5 + 0j, b"1.0"]
        for v in nonmembers:
            c.probe("f64", v, False)
        vals += [MyFloat(1.5), MyFloat(-0.0), MyFloat(1.7976931348623157e308), MyFloat("inf"), MyFloat("nan")]  # instances of a subclass of the bound type
    for _ in range(nrand):
        vals.append(struct.unpack(">d", rng.getrandbits(64).to_bytes(8, "big"))[0])
    for v in vals:
        m = member_f64(v)
        a = c.probe("f64", v, m)
        if a and m:
            c.roundtrip("f64", v, "write_float64", "read_float64")


def durations(c: Ctx, rng, nrand: int, deterministic: bool) -> None:  # noqa: ANN001
    for name, (lo, hi), w, r in (("i32Timedelta", TD32, "write_timedelta_i32", "read_timedelta_i32"), ("i64Timedelta", TD64, "write_timedelta_i64", "read_timedelta_i64")):
        vals: list = []
        if deterministic:
            for edge in (lo, hi):
                for d in (-MS, -US, TD(0), US, MS, TD(microseconds=500), TD(microseconds=-500), TD(microseconds=999)):
                    try:
                        vals.append(edge + d)
                    except OverflowError:
                        pass
            vals += [TD(0), US, -US, MS, -MS, TD(microseconds=499), TD(microseconds=500), TD(microseconds=501), TD(microseconds=1500), TD(microseconds=-1500),
                     TD(milliseconds=2**31), TD(milliseconds=-(2**31) - 1), TD(milliseconds=2**53 + 1), TD(milliseconds=-(2**53) - 1), TD(milliseconds=2**53 - 1),
                     TD.max, TD.min, TD.max - TD(days=1), TD.max - TD(days=1) + US, TD(days=1), TD(days=-1), TD(seconds=1, microseconds=1)]
            for v in (0, 1, 1.0, "1", None, datetime.datetime.now(UTC), datetime.date(2020, 1, 1), True):
                c.probe(name, v, False)
        lo_ms, hi_ms = lo // MS, hi // MS
        for _ in range(nrand):
            k = rng.random()
            if k < 0.4:
                vals.append(TD(milliseconds=rng.randint(lo_ms, hi_ms)))
            elif k < 0.7:
                vals.append(TD(milliseconds=rng.randint(-(2**31) - 5, 2**31 + 5), microseconds=rng.randint(-999, 999)))
            else:
                try:
                    vals.append(TD(microseconds=rng.randint(TD.min // US, TD.max // US)))
                except OverflowError:
                    pass
        if deterministic:
            vals += [MyTimedelta(milliseconds=5), MyTimedelta(0), MyTimedelta(days=-1, microseconds=1000), MyTimedelta(milliseconds=2**31 + 5)]
        for v in vals:
            m = member_td(v, (lo, hi))
            a = c.probe(name, v, m)
            if a and m:
                us = v // US
                q, rem = divmod(us, 1000)
                # "after rounding to whole milliseconds": to the nearest one; an exact half may go either way
                neighbours = {TD(milliseconds=q)} if rem < 500 else {TD(milliseconds=q + 1)} if rem > 500 else {TD(milliseconds=q), TD(milliseconds=q + 1)}
                # rounding may step outside the type's range at the very edge; the writer then has to raise or clamp - not exercised
                if rem and not (lo <= TD(milliseconds=q) and TD(milliseconds=q + 1) <= hi):
                    continue
                c.roundtrip(name, v, w, r, expect=lambda back, nb=neighbours: back in nb)


def timestamps(c: Ctx, rng, nrand: int, deterministic: bool) -> None:  # noqa: ANN001
    tzs = [UTC, datetime.timezone(TD(hours=14)), datetime.timezone(TD(hours=-14) + TD(minutes=1)), datetime.timezone(TD(hours=5, minutes=30)), datetime.timezone(TD(minutes=-1))]
    # UTC offsets have microsecond resolution since Python 3.7: zones whose offset is not a whole number of milliseconds (and one that is)
    tzs += [datetime.timezone(TD(microseconds=500)), datetime.timezone(TD(hours=1, microseconds=1)), datetime.timezone(-TD(microseconds=999)),
            datetime.timezone(TD(milliseconds=1)), datetime.timezone(TD(hours=-3, milliseconds=-7))]
    try:
        import zoneinfo

        for z in ("Europe/Stockholm", "America/New_York", "Asia/Kolkata", "Pacific/Kiritimati", "Australia/Lord_Howe"):
            try:
                tzs.append(zoneinfo.ZoneInfo(z))
            except Exception:  # noqa: BLE001
                c.res.count("zoneinfo_zone_unavailable")
    except ImportError:
        pass
    vals: list = []
    D = datetime.datetime  # noqa: N806
    if deterministic:
        for us in (0, 1, 999, 1000, 5000, 999000, 999999, 123000, 123456):
            vals.append(D(2024, 5, 28, 12, 31, 7, us, tzinfo=UTC))
            vals.append(D(2024, 5, 28, 12, 31, 7, us))  # naive
            vals.append(D(2024, 5, 28, 12, 31, 7, us, tzinfo=NoneOffset()))
        for d in (-TD(seconds=1), -MS, -US, TD(0), US, MS, TD(seconds=1)):
            for tz in tzs:
                vals.append((EPOCH + d).astimezone(tz))
        # wall-clock microseconds against the zone's own sub-millisecond offset: equal to it, its complement, and a grid - so that every way
        # of combining the two (sum, difference, either alone) is probed on both sides of "whole millisecond"
        for tz in tzs:
            off = tz.utcoffset(None) if isinstance(tz, datetime.timezone) else None
            if off is None or not off.microseconds % 1000:
                continue
            o = off.microseconds % 1000
            for us in sorted({o, (1000 - o) % 1000, (2 * o) % 1000, (1000 - 2 * o) % 1000, 0, 1, 999} | set(range(0, 1000, 125))):
                for ms_part in (0, 5000):
                    vals.append(D(2024, 5, 28, 12, 31, 7, ms_part + us, tzinfo=tz))
        vals += [D(1, 1, 1, tzinfo=UTC), D(1, 1, 1, tzinfo=tzs[1]), D(1969, 12, 31, 23, 59, 59, 999000, tzinfo=UTC), D(9999, 12, 31, 23, 59, 59, 999000, tzinfo=UTC),
                 D(9999, 12, 31, 23, 59, 59, 999999, tzinfo=UTC), D(9999, 12, 31, 23, 59, 59, tzinfo=UTC), D(9999, 12, 31, 23, 59, 59, tzinfo=tzs[1]),
                 D(9999, 12, 31, 23, 59, 59, tzinfo=tzs[2]), D(9999, 12, 31, 10, 0, 0, 1000, tzinfo=tzs[2]), D(9999, 12, 31, 9, 0, 0, tzinfo=tzs[2]),
                 D.max.replace(tzinfo=UTC), D.max.replace(tzinfo=UTC, microsecond=0), D(1970, 1, 1, 14, tzinfo=tzs[1]), D(1970, 1, 1, 13, 59, 59, tzinfo=tzs[1])]
        for v in (0, 1.0, "2024-01-01", None, datetime.date(2024, 1, 1), datetime.time(1, 2, tzinfo=UTC), TD(0), True):
            c.probe("TZAware", v, False)
        vals += [MyDatetime(2024, 5, 28, 12, 31, 7, 123000, tzinfo=UTC), MyDatetime(2024, 5, 28, 12, 31, 7, 123456, tzinfo=UTC), MyDatetime(2024, 5, 28, 12, 31, 7),
                 MyDatetime(1969, 12, 31, 23, 59, 59, tzinfo=UTC), MyDatetime(1970, 1, 1, tzinfo=tzs[1])]
    for _ in range(nrand):
        ms = rng.randint(-1000, gen.DT_MAX) if rng.random() < 0.8 else rng.randint(-5000, 5000)
        us = rng.choice((0, 0, 0, 1, 500, 999, rng.randint(0, 999)))
        base = EPOCH + TD(milliseconds=ms, microseconds=us) if ms + 1 <= gen.DT_MAX else EPOCH + TD(milliseconds=gen.DT_MAX)
        tz = rng.choice(tzs)
        try:
            vals.append(base.astimezone(tz) if rng.random() < 0.85 else base.replace(tzinfo=None))
        except OverflowError:
            vals.append(base)
    for v in vals:
        m = member_tzaware(v)
        a = c.probe("TZAware", v, m)
        if a and m:
            c.roundtrip("TZAware", v, "write_datetime_i64", "read_datetime_i64")
            c.roundtrip("TZAware", v, "write_nullable_datetime_i64", "read_nullable_datetime_i64")


def c12_worker(res: Result, i: int, n: int) -> None:
    c = Ctx(res)
    rng = common.rng_for("C12", i)
    total = 160000 if res.tier == "quick" else 16000000
    nrand = total // n
    det = i == 0
    for fn, share in ((ints, 0.06), (floats, 0.3), (durations, 0.15), (timestamps, 0.15)):
        try:
            fn(c, rng, max(1, int(nrand * share)), det)
        except Exception:  # noqa: BLE001
            res.inconclusive_because(f"{fn.__name__} crashed: {traceback.format_exc()[-800:]}")
    res.coverage["per_type"] = c.per_type
    res.coverage["distinct_type_value_pairs"] = len(c.distinct)
    if det:
        res.sample({"type": "i16", "value": 32768, "oracle_member": False})
        res.sample({"type": "TZAware", "value": "2017-08-20T11:50:38.908+00:00", "oracle_member": True})
        res.sample({"type": "i64Timedelta", "value": "timedelta(milliseconds=2**53+1)", "oracle_member": True})


def run(prop: str, tier_: str) -> int:
    res = Result("C12", "exploration", tier_)
    shard.run(res, "kv.checks.types:c12_worker", timeout=900 if tier_ == "quick" else 5400)
    per = res.coverage.get("per_type", {})
    want_types = set(INT_RANGES) | {"f64", "i32Timedelta", "i64Timedelta", "TZAware"}
    floor_ok = want_types <= set(per) and all(per[t]["members"] > 0 and per[t]["non_members"] > 0 for t in want_types) and \
        res.counters.get("writer_roundtrips", 0) > 100 and res.counters.get("nesting_checks", 0) > 100
    res.assumptions.append("membership oracle: closed integer ranges by width (varints: 5/10 groups of 7 bits), finite floats, closed timedelta ranges, "
                           "aware + whole-millisecond + instant >= epoch for timestamps; bool is neither required nor forbidden as an int (consistency only)")
    return res.finish(
        res.counters.get("probes", 0), int(res.coverage.get("distinct_type_value_pairs", 0)),
        "for each primitive type: every range limit +-2, powers of two +-1 up to 2^71, random magnitudes, float classes, durations and "
        "timestamps around their limits and at sub-millisecond offsets, naive/aware datetimes in several zones, non-matching Python types; "
        "isinstance, T(v) and T.parse(v) must agree with an independent membership predicate, narrower types nest in wider ones, members "
        "go through the matching writer and reader; distinct = distinct (type, value) pairs probed",
        floor_ok,
    )


def replay(prop: str, path: str) -> int:
    return common.replay_by_rerun(prop, path, run)
