"""C11: every public primitive reader/writer against reference encodings over its domain."""
from __future__ import annotations

import datetime
import inspect
import io
import math
import traceback
import uuid

from .. import common, gen, refcodec, shard
from ..common import Result
from ..describe import EPOCH, MS
from ..streams import ReadOnlySource, WriteOnlySink

UTC = datetime.timezone.utc


# ---------------------------------------------------------------------------------------
# independent IEEE-754 binary64 (no struct)


def f64_bits(x: float) -> int:
    if x != x:
        return 0x7FF8000000000000
    sign = 1 if math.copysign(1.0, x) < 0 else 0
    x = abs(x)
    if x == math.inf:
        return (sign << 63) | (0x7FF << 52)
    if x == 0.0:
        return sign << 63
    m, e = math.frexp(x)  # x = m * 2**e, 0.5 <= m < 1
    exp = e - 1 + 1023
    if exp <= 0:  # subnormal
        frac = int(math.ldexp(x, 1074))
        return (sign << 63) | frac
    frac = int(math.ldexp(m, 53)) - (1 << 52)
    return (sign << 63) | (exp << 52) | frac


def f64_from_bits(b: int) -> float:
    sign = -1.0 if b >> 63 else 1.0
    exp = (b >> 52) & 0x7FF
    frac = b & ((1 << 52) - 1)
    if exp == 0x7FF:
        return sign * math.inf if frac == 0 else math.nan
    if exp == 0:
        return sign * math.ldexp(frac, -1074)
    return sign * math.ldexp((1 << 52) | frac, exp - 1075)


# ---------------------------------------------------------------------------------------


class Ctx:
    def __init__(self, res: Result, i: int, n: int) -> None:
        self.res = res
        self.i = i
        self.n = n
        self.covered: set[str] = set()
        self.per_fn: dict[str, int] = {}
        self.distinct = 0
        import kio.serial.readers as R  # noqa: N812
        import kio.serial.writers as W  # noqa: N812
        from kio.serial.errors import BufferUnderflow, OutOfBoundValue, UnexpectedNull

        self.R, self.W = R, W
        self.BufferUnderflow, self.UnexpectedNull, self.OutOfBoundValue = BufferUnderflow, UnexpectedNull, OutOfBoundValue

    def mine(self, k: int) -> bool:
        return k % self.n == self.i

    def use(self, *fns) -> None:  # noqa: ANN002
        for f in fns:
            self.covered.add(f.__name__ if hasattr(f, "__name__") else str(f))

    def tick(self, fn, k: int = 1) -> None:  # noqa: ANN001
        name = fn.__name__
        self.per_fn[name] = self.per_fn.get(name, 0) + k
        self.res.count("evaluations", k)

    def bad(self, key: str, msg: str, **payload: object) -> None:
        self.res.violation(key, msg, payload)

    # ---- helpers -----------------------------------------------------------------
    def write(self, fn, value, *pre):  # noqa: ANN001, ANN002
        """Call a writer on an instrumented sink; return bytes or the exception."""
        sink = WriteOnlySink()
        try:
            fn(sink, *pre, value)
        except Exception as exc:  # noqa: BLE001
            return exc, sink.observed_bytes()
        if sink.observed_events():
            self.bad(f"sink-misuse:{fn.__name__}", f"{fn.__name__} touched the sink via {sink.observed_events()}", value=repr(value))
        return None, sink.observed_bytes()

    def read(self, fn, data: bytes, tail: bytes = b"\xa5\x5a"):  # noqa: ANN001
        src = ReadOnlySource(data + tail)
        try:
            v = fn(src)
        except Exception as exc:  # noqa: BLE001
            return exc, None, src.observed_position()
        return None, v, src.observed_position()

    def expect_encoding(self, wfn, rfn, value, want: bytes, read_back=None, key: str = "") -> None:  # noqa: ANN001
        """writer(value) == want; reader(want) == value (or read_back); position == len(want)."""
        exc, got = self.write(wfn, value)
        self.tick(wfn)
        if exc is not None:
            self.bad(f"writer-raises:{wfn.__name__}:{type(exc).__name__}", f"{wfn.__name__}({value!r}) raised {exc!r} on an in-domain value",
                     function=wfn.__name__, value=repr(value), want=want)
        elif got != want:
            self.bad(f"writer-bytes:{wfn.__name__}", f"{wfn.__name__}({value!r}) wrote {got.hex()} instead of {want.hex()}",
                     function=wfn.__name__, value=repr(value), got=got, want=want)
        if rfn is None:
            return
        exc, v, pos = self.read(rfn, want)
        self.tick(rfn)
        expect = value if read_back is None else read_back
        if exc is not None:
            self.bad(f"reader-raises:{rfn.__name__}:{type(exc).__name__}", f"{rfn.__name__}({want.hex()}) raised {exc!r} on a valid encoding",
                     function=rfn.__name__, data=want, expected=repr(expect))
        elif not _same(v, expect) or pos != len(want):
            self.bad(f"reader-value:{rfn.__name__}", f"{rfn.__name__}({want.hex()[:80]}) returned {v!r} at position {pos}, expected {expect!r} at {len(want)}",
                     function=rfn.__name__, data=want, got=repr(v), expected=repr(expect))

    def expect_raises(self, wfn, value, *pre, what: str = "out-of-domain") -> None:  # noqa: ANN001, ANN002
        exc, got = self.write(wfn, value, *pre)
        self.tick(wfn)
        self.res.count("out_of_domain_probes")
        if exc is None:
            self.bad(f"writer-accepts-out-of-domain:{wfn.__name__}", f"{wfn.__name__} encoded the {what} value {_short(value)} as {got.hex()[:40]} instead of raising",
                     function=wfn.__name__, value=_short(value), wrote=got)
        elif got:
            self.bad(f"writer-partial-output:{wfn.__name__}", f"{wfn.__name__} wrote {got.hex()[:40]} before rejecting {_short(value)}",
                     function=wfn.__name__, value=_short(value), wrote=got)


def _short(v: object) -> str:
    r = repr(v)
    return r if len(r) < 120 else r[:120] + ".."


def _same(a: object, b: object) -> bool:
    if isinstance(a, float) and isinstance(b, float):
        return f64_bits(a) == f64_bits(b)
    if isinstance(b, bool) or isinstance(a, bool):
        return a is b
    if isinstance(a, tuple) and isinstance(b, tuple):
        return len(a) == len(b) and all(_same(x, y) for x, y in zip(a, b))
    return type(a) is type(b) and a == b if isinstance(b, (bytes, str, tuple)) else a == b


def _int_values(rng, lo: int, hi: int, nrand: int):  # noqa: ANN001, ANN202
    width = (hi - lo + 1).bit_length()
    vals = {lo, hi, lo + 1, hi - 1, 0, 1} | ({-1} if lo < 0 else set())
    for p in range(0, width + 1):
        for d in sorted(set(range(-64, 65, 1 if p < 20 else 7)) | {-1, 0, 1}):  # the power of two itself and its two neighbours, always
            for s in (1, -1):
                v = s * (1 << p) + d
                if lo <= v <= hi:
                    vals.add(v)
    for _ in range(nrand):
        vals.add(rng.randint(lo, hi))
        bits = rng.randint(1, width)
        v = rng.getrandbits(bits) * rng.choice((1, -1))
        if lo <= v <= hi:
            vals.add(v)
    return vals


# ---------------------------------------------------------------------------------------
# rows


def row_fixed_ints(c: Ctx) -> None:
    R, W = c.R, c.W  # noqa: N806
    rng = common.rng_for("C11", "ints", c.i)
    nrand = 6000 if c.res.tier == "quick" else 600000
    for k, (bits, signed) in enumerate(((8, True), (16, True), (32, True), (64, True), (8, False), (16, False), (32, False), (64, False))):
        name = f"{'' if signed else 'u'}int{bits}"
        w, r = getattr(W, f"write_{name}"), getattr(R, f"read_{name}")
        c.use(w, r)
        lo, hi = (-(1 << (bits - 1)), (1 << (bits - 1)) - 1) if signed else (0, (1 << bits) - 1)
        if bits <= 16:
            vals = [v for v in range(lo, hi + 1) if c.mine(v)]
            c.res.coverage.setdefault("exhaustive_ranges", [])
            if c.i == 0:
                c.res.coverage["exhaustive_ranges"].append(f"{name}: all {hi - lo + 1} values (writer, reader, reader-after-writer)")
        else:
            vals = sorted(_int_values(rng, lo, hi, nrand // c.n))
        for v in vals:
            c.expect_encoding(w, r, v, v.to_bytes(bits // 8, "big", signed=signed))
        c.distinct += len(vals)
        if c.i == k % c.n:
            for v in (lo - 1, hi + 1, lo - 2**bits, hi + 2**bits, -(1 << 70), 1 << 70, lo * 2 - 1, hi * 2 + 1):
                c.expect_raises(w, v)
            # truncated input
            for cut in range(bits // 8):
                exc, v, _ = c.read(r, b"\x01" * cut, tail=b"")
                c.tick(r)
                if not isinstance(exc, c.BufferUnderflow):
                    c.bad(f"reader-short:{r.__name__}", f"{r.__name__} on {cut} of {bits // 8} bytes gave {exc!r}/{v!r} instead of BufferUnderflow", function=r.__name__, cut=cut)
    # the alias
    c.use(R.read_legacy_array_length, W.write_legacy_array_length, R.read_compact_array_length, W.write_compact_array_length)
    c.covered.add("read_legacy_array_length")  # an alias: its __name__ is read_int32
    for v in (0, 1, 127, 128, 2**31 - 1, -1):
        if c.mine(v):
            c.expect_encoding(W.write_legacy_array_length, R.read_legacy_array_length, v, v.to_bytes(4, "big", signed=True))
            c.per_fn["read_legacy_array_length"] = c.per_fn.get("read_legacy_array_length", 0) + 1
    for v in (-1, 0, 1, 126, 127, 128, 16382, 16383, 16384, 2**21 - 2, 2**31 - 2):
        if c.mine(v):
            c.expect_encoding(W.write_compact_array_length, R.read_compact_array_length, v, refcodec.uvarint(v + 1))


def row_bool_float(c: Ctx) -> None:
    R, W = c.R, c.W  # noqa: N806
    c.use(W.write_boolean, R.read_boolean, W.write_float64, R.read_float64)
    if c.i == 0:
        c.expect_encoding(W.write_boolean, R.read_boolean, True, b"\x01")
        c.expect_encoding(W.write_boolean, R.read_boolean, False, b"\x00")
        exc, _, _ = c.read(R.read_boolean, b"", tail=b"")
        if not isinstance(exc, c.BufferUnderflow):
            c.bad("reader-short:read_boolean", f"read_boolean on empty input gave {exc!r}")
        # "When reading a boolean value, any non-zero value is considered true" (Kafka protocol guide, BOOLEAN)
        for byte in range(256):
            exc, v, pos = c.read(R.read_boolean, bytes([byte]))
            c.tick(R.read_boolean)
            if exc is not None or v is not (byte != 0) or pos != 1:
                c.bad(f"reader-bool:read_boolean:{'nonzero' if byte else 'zero'}", f"read_boolean({byte:#04x}) gave {exc!r}/{v!r} after {pos} bytes, the protocol says {byte != 0}", data=bytes([byte]))
        c.res.coverage.setdefault("exhaustive_ranges", []).append("all 256 bytes as boolean reader input")
    rng = common.rng_for("C11", "floats", c.i)
    vals = [0.0, -0.0, 1.0, -1.0, 1.5, 0.1, math.pi, -math.e, 5e-324, 2.2250738585072014e-308, 2.225073858507201e-308,
            1.7976931348623157e308, -1.7976931348623157e308, 2.0**53, 2.0**53 + 2, 1e-320, float(2**63), math.inf, -math.inf]
    nrand = (4000 if c.res.tier == "quick" else 400000) // c.n
    for _ in range(nrand):
        vals.append(f64_from_bits(rng.getrandbits(64)))
    for x in vals:
        if x != x:
            continue
        want = f64_bits(x).to_bytes(8, "big")
        c.expect_encoding(W.write_float64, R.read_float64, x, want)
    c.distinct += len(vals)
    # NaNs are doubles too: the writer emits eight bytes with all exponent bits set and a non-zero fraction, and what the reader returns for
    # any NaN pattern can be written back (bit-exact where Python keeps the payload, which struct does)
    for bits in (0x7FF8000000000000, 0xFFF8000000000000, 0x7FF8000000000001, 0x7FF4000000000000, 0x7FFFFFFFFFFFFFFF):
        pattern = bits.to_bytes(8, "big")
        exc, v, pos = c.read(R.read_float64, pattern)
        c.tick(R.read_float64)
        if exc is not None or v == v or pos != 8:
            c.bad("reader-nan:read_float64", f"read_float64({pattern.hex()}) gave {exc!r}/{v!r}")
            continue
        exc, got = c.write(W.write_float64, v)
        c.tick(W.write_float64)
        if exc is not None or len(got) != 8 or (int.from_bytes(got, "big") >> 52) & 0x7FF != 0x7FF or not int.from_bytes(got, "big") & ((1 << 52) - 1):
            c.bad("writer-nan:write_float64", f"write_float64(NaN read from {pattern.hex()}) gave {exc!r}/{(got or b'').hex()}: not a NaN pattern")
    exc, got = c.write(W.write_float64, float("nan"))
    if exc is not None or len(got) != 8 or (int.from_bytes(got, "big") >> 52) & 0x7FF != 0x7FF:
        c.bad("writer-nan:write_float64", f"write_float64(float('nan')) gave {exc!r}/{(got or b'').hex()}")
    # NaN: any payload must read back as a NaN and the canonical quiet NaN must be written as a NaN pattern
    exc, v, pos = c.read(R.read_float64, bytes.fromhex("7ff8000000000001"))
    c.tick(R.read_float64)
    if exc is not None or v == v or pos != 8:
        c.bad("reader-nan:read_float64", f"read_float64 of a NaN pattern gave {exc!r}/{v!r}")


def _varint_ref(data: bytes, max_bytes: int):  # noqa: ANN202
    try:
        v, pos = refcodec.read_uvarint(data, 0, max_bytes)
        return "ok", v, pos
    except EOFError:
        return "short", None, None
    except ValueError:
        return "long", None, None


def row_varints(c: Ctx) -> None:
    R, W = c.R, c.W  # noqa: N806
    c.use(W.write_unsigned_varint, R.read_unsigned_varint, W.write_unsigned_varlong, R.read_unsigned_varlong,
          W.write_signed_varint, R.read_signed_varint, W.write_signed_varlong, R.read_signed_varlong)
    rng = common.rng_for("C11", "varints", c.i)
    # --- writers + reader-after-writer: exhaustive below 2^21 (quick: below 2^16 + strided), neighbourhoods, random
    top = 1 << 21
    stride_from = 1 << 16 if c.res.tier == "quick" else top
    us = [v for v in range(0, stride_from) if c.mine(v)]
    if c.res.tier == "quick":
        us += [v for v in range(stride_from, top, 61) if c.mine(v)]
    if c.i == 0:
        c.res.coverage.setdefault("exhaustive_ranges", []).append(
            f"unsigned varint/varlong and their zig-zag images: all values below {stride_from}" + ("" if stride_from == top else f", every 61st up to {top}"))
    for v in us:
        want = refcodec.uvarint(v)
        c.expect_encoding(W.write_unsigned_varint, R.read_unsigned_varint, v, want)
        c.expect_encoding(W.write_unsigned_varlong, R.read_unsigned_varlong, v, want)
        s = refcodec.unzigzag(v)
        c.expect_encoding(W.write_signed_varint, R.read_signed_varint, s, want)
        c.expect_encoding(W.write_signed_varlong, R.read_signed_varlong, s, want)
    c.distinct += len(us)
    nrand = (3000 if c.res.tier == "quick" else 300000) // c.n
    for v in sorted(_int_values(rng, 0, 2**32 - 1, nrand)):
        c.expect_encoding(W.write_unsigned_varint, R.read_unsigned_varint, v, refcodec.uvarint(v))
    for v in sorted(_int_values(rng, 0, 2**64 - 1, nrand)):
        c.expect_encoding(W.write_unsigned_varlong, R.read_unsigned_varlong, v, refcodec.uvarint(v))
    for v in sorted(_int_values(rng, -(2**31), 2**31 - 1, nrand)):
        want = refcodec.svarint(v)
        if len(want) > 5:
            c.bad("oracle", "reference svarint longer than 5 bytes")
        c.expect_encoding(W.write_signed_varint, R.read_signed_varint, v, want)
    for v in sorted(_int_values(rng, -(2**63), 2**63 - 1, nrand)):
        want = refcodec.svarlong(v)
        c.expect_encoding(W.write_signed_varlong, R.read_signed_varlong, v, want)
    # --- readers: every byte string up to length 2 (quick) / 3 (thorough), split by first byte
    maxlen = 2 if c.res.tier == "quick" else 3
    if c.i == 0:
        c.res.coverage.setdefault("exhaustive_ranges", []).append(f"every byte string of length <= {maxlen} as varint and varlong reader input")
    readers = ((R.read_unsigned_varint, 5, False), (R.read_unsigned_varlong, 10, False), (R.read_signed_varint, 5, True), (R.read_signed_varlong, 10, True))

    def check_input(data: bytes) -> None:
        for fn, mb, signed in readers:
            kind, v, pos = _varint_ref(data, mb)
            src = ReadOnlySource(data)
            c.tick(fn)
            try:
                got = fn(src)
            except c.BufferUnderflow:
                if kind != "short":
                    c.bad(f"varint-reader:{fn.__name__}:underflow", f"{fn.__name__}({data.hex()}) raised BufferUnderflow, reference says {kind}", data=data)
                continue
            except ValueError as exc:
                if kind != "long":
                    c.bad(f"varint-reader:{fn.__name__}:valueerror", f"{fn.__name__}({data.hex()}) raised {exc!r}, reference says {kind} {v}", data=data)
                continue
            except Exception as exc:  # noqa: BLE001
                c.bad(f"varint-reader:{fn.__name__}:{type(exc).__name__}", f"{fn.__name__}({data.hex()}) raised {exc!r}", data=data)
                continue
            if kind != "ok":
                c.bad(f"varint-reader:{fn.__name__}:accepts-{kind}", f"{fn.__name__}({data.hex()}) returned {got}, reference says the input is too {kind}", data=data)
                continue
            want = refcodec.unzigzag(v) if signed else v
            if got != want or src.observed_position() != pos:
                c.bad(f"varint-reader:{fn.__name__}:value", f"{fn.__name__}({data.hex()}) returned {got} after {src.observed_position()} bytes, reference {want} after {pos}", data=data)

    if c.i == 0:
        check_input(b"")
    for b0 in range(256):
        if not c.mine(b0):
            continue
        check_input(bytes([b0]))
        for b1 in range(256):
            check_input(bytes([b0, b1]))
            if maxlen >= 3:
                for b2 in range(256):
                    check_input(bytes([b0, b1, b2]))
    c.distinct += 257 * 256 // c.n
    # longer inputs: continuation patterns up to 11 bytes
    for _ in range((4000 if c.res.tier == "quick" else 200000) // c.n):
        ln = rng.randint(3, 11)
        data = bytes((rng.getrandbits(7) | (0x80 if rng.random() < 0.8 else 0)) for _ in range(ln))
        check_input(data)
    if c.i == 1 % c.n:
        for data in (b"\xff\xff\xff\xff\x0f", b"\xff\xff\xff\xff\x7f", b"\xff\xff\xff\xff\xff", b"\x80\x80\x80\x80\x80\x00", b"\xff" * 9 + b"\x01", b"\xff" * 9 + b"\x7f",
                     b"\xff" * 10, b"\x80" * 10 + b"\x00", b"\x80\x00", b"\x80\x80\x00"):
            check_input(data)


def _strings(rng, lengths):  # noqa: ANN001, ANN202
    for n in lengths:
        yield gen.utf8_of_length(rng, n)


class LyingBytes(bytes):
    def __len__(self) -> int:  # noqa: D105
        return 2**31


class LyingSeq:
    def __init__(self, n: int) -> None:
        self.n = n

    def __len__(self) -> int:
        return self.n

    def __iter__(self):  # noqa: ANN204
        return iter(())

    def __getitem__(self, k):  # noqa: ANN001, ANN204
        raise IndexError(k)


def row_strings(c: Ctx) -> None:
    R, W = c.R, c.W  # noqa: N806
    c.use(W.write_compact_string, W.write_nullable_compact_string, W.write_legacy_string, W.write_nullable_legacy_string,
          W.write_legacy_bytes, W.write_nullable_legacy_bytes, R.read_compact_string, R.read_compact_string_nullable,
          R.read_compact_string_as_bytes, R.read_compact_string_as_bytes_nullable, R.read_legacy_string, R.read_nullable_legacy_string,
          R.read_legacy_bytes, R.read_nullable_legacy_bytes)
    rng = common.rng_for("C11", "strings", c.i)
    lengths = [0, 1, 2, 126, 127, 128, 129, 16382, 16383, 16384, 32766, 32767]
    extra = [rng.randint(0, 300) for _ in range(40 if c.res.tier == "quick" else 2000)]
    mine = [n for k, n in enumerate(lengths + extra) if c.mine(k)]
    for n in mine:
        s = gen.utf8_of_length(rng, n)
        raw = s.encode()
        assert len(raw) == n
        b = rng.randbytes(n)
        # compact
        for w in (W.write_compact_string, W.write_nullable_compact_string):
            c.expect_encoding(w, R.read_compact_string, s, refcodec.uvarint(n + 1) + raw)
            c.expect_encoding(w, R.read_compact_string_as_bytes, b, refcodec.uvarint(n + 1) + b)
        c.expect_encoding(W.write_nullable_compact_string, R.read_compact_string_nullable, s, refcodec.uvarint(n + 1) + raw)
        c.expect_encoding(W.write_nullable_compact_string, R.read_compact_string_as_bytes_nullable, b, refcodec.uvarint(n + 1) + b)
        # legacy
        for w, r in ((W.write_legacy_string, R.read_legacy_string), (W.write_nullable_legacy_string, R.read_nullable_legacy_string)):
            c.expect_encoding(w, r, s, n.to_bytes(2, "big") + raw)
        for w, r in ((W.write_legacy_bytes, R.read_legacy_bytes), (W.write_nullable_legacy_bytes, R.read_nullable_legacy_bytes)):
            c.expect_encoding(w, r, b, n.to_bytes(4, "big") + b)
        c.distinct += 1
    if c.i == 2 % c.n:
        # nulls
        c.expect_encoding(W.write_nullable_compact_string, R.read_compact_string_nullable, None, b"\x00")
        c.expect_encoding(W.write_nullable_compact_string, R.read_compact_string_as_bytes_nullable, None, b"\x00")
        c.expect_encoding(W.write_nullable_legacy_string, R.read_nullable_legacy_string, None, b"\xff\xff")
        c.expect_encoding(W.write_nullable_legacy_bytes, R.read_nullable_legacy_bytes, None, b"\xff\xff\xff\xff")
        for r, data in ((R.read_compact_string, b"\x00"), (R.read_compact_string_as_bytes, b"\x00"), (R.read_legacy_string, b"\xff\xff"), (R.read_legacy_bytes, b"\xff\xff\xff\xff")):
            exc, v, _ = c.read(r, data)
            c.tick(r)
            if not isinstance(exc, c.UnexpectedNull):
                c.bad(f"reader-null:{r.__name__}", f"{r.__name__} on the null form gave {exc!r}/{v!r} instead of UnexpectedNull", function=r.__name__)
        for w in (W.write_compact_string, W.write_legacy_string, W.write_legacy_bytes):
            c.expect_raises(w, None, what="null")
        # length limits of the legacy forms
        for n in (32768, 32769, 40000, 65535, 65536, 70000):
            s = "x" * n
            c.expect_raises(W.write_legacy_string, s, what=f"{n}-byte")
            c.expect_raises(W.write_nullable_legacy_string, s, what=f"{n}-byte")
        c.expect_raises(W.write_legacy_string, "€" * 10923, what="32769-byte (10923 x 3-byte chars)")
        c.expect_encoding(W.write_legacy_string, R.read_legacy_string, "€" * 10922 + "x", (32767).to_bytes(2, "big") + ("€" * 10922 + "x").encode())
        # a Kafka string is UTF-8: a payload that is not (lone continuation byte, truncated sequence, overlong form, encoded UTF-16 surrogate,
        # beyond U+10FFFF) behind a correct length prefix is not an encoding of any string - whatever a reader returned for it no writer
        # could write.  It has to be refused (UnicodeDecodeError is a ValueError).
        for bad_utf8 in (b"\x80", b"\xc3", b"a\xe2\x82", b"\xc0\x80", b"\xed\xa0\x80", b"\xed\xbf\xbf", b"\xf4\x90\x80\x80", b"ok\xffok", b"\xf8\x88\x80\x80\x80"):
            n = len(bad_utf8)
            for r, data in ((R.read_compact_string, refcodec.uvarint(n + 1) + bad_utf8), (R.read_compact_string_nullable, refcodec.uvarint(n + 1) + bad_utf8),
                            (R.read_legacy_string, n.to_bytes(2, "big") + bad_utf8), (R.read_nullable_legacy_string, n.to_bytes(2, "big") + bad_utf8)):
                exc, v, _ = c.read(r, data)
                c.tick(r)
                if not isinstance(exc, ValueError):
                    c.bad(f"reader-not-utf8:{r.__name__}", f"{r.__name__}({data.hex()}) gave {exc!r}/{v!r} for a payload that is not UTF-8 (expected a ValueError)", data=data)
        # bytes are not strings: the int16 limit does not apply to them (legacy bytes carry an int32 length, compact ones a varint)
        for n in (32768, 65535, 65536, 1 << 20):
            b = rng.randbytes(n)
            for w, r in ((W.write_legacy_bytes, R.read_legacy_bytes), (W.write_nullable_legacy_bytes, R.read_nullable_legacy_bytes)):
                c.expect_encoding(w, r, b, n.to_bytes(4, "big") + b)
            c.expect_encoding(W.write_compact_string, R.read_compact_string_as_bytes, b, refcodec.uvarint(n + 1) + b)
            c.expect_encoding(W.write_nullable_compact_string, R.read_compact_string_as_bytes_nullable, b, refcodec.uvarint(n + 1) + b)
        # ... and compact *strings* may be longer than a legacy string can be
        big = "é" * 20000
        c.expect_encoding(W.write_compact_string, R.read_compact_string, big, refcodec.uvarint(40001) + big.encode())
        c.expect_raises(W.write_legacy_bytes, LyingBytes(b"abc"), what="2**31-byte (length-lying)")
        c.expect_raises(W.write_nullable_legacy_bytes, LyingBytes(b"abc"), what="2**31-byte (length-lying)")
        # negative length prefixes other than the null marker are not an encoding of anything: the reader may reject them (or treat
        # them as null) but it may not hand out bytes for them, and it may never ask the source for a negative number of bytes
        for r, width in ((R.read_legacy_string, 2), (R.read_nullable_legacy_string, 2), (R.read_legacy_bytes, 4), (R.read_nullable_legacy_bytes, 4)):
            for n in (-2, -3, -(1 << (8 * width - 1))):
                src = ReadOnlySource(n.to_bytes(width, "big", signed=True) + b"next-field-bytes")
                c.tick(r)
                try:
                    out = r(src)
                except Exception:  # noqa: BLE001
                    out = None
                if out or src.observed_events():
                    c.bad(f"reader-negative-length:{r.__name__}", f"{r.__name__} given the length prefix {n} returned {out!r} (source events {src.observed_events()})",
                          function=r.__name__, length=n)
        for n in (-1, -2, -7):
            src = ReadOnlySource(b"abcdef")
            c.tick(R.read_exact)
            try:
                out = R.read_exact(src, n)
            except Exception:  # noqa: BLE001
                out = None
            if out or src.observed_events():
                c.bad("reader-negative-length:read_exact", f"read_exact(n={n}) returned {out!r} (source events {src.observed_events()})", length=n)
        # truncated payloads
        for r, data in ((R.read_compact_string, b"\x05ab"), (R.read_legacy_string, b"\x00\x05ab"), (R.read_legacy_bytes, b"\x00\x00\x00\x05ab"),
                        (R.read_compact_string_as_bytes_nullable, b"\x05ab"), (R.read_nullable_legacy_bytes, b"\x00\x00\x00")):
            exc, v, _ = c.read(r, data, tail=b"")
            c.tick(r)
            if not isinstance(exc, c.BufferUnderflow):
                c.bad(f"reader-short:{r.__name__}", f"{r.__name__}({data.hex()}) gave {exc!r}/{v!r} instead of BufferUnderflow", function=r.__name__)


def row_arrays(c: Ctx) -> None:
    R, W = c.R, c.W  # noqa: N806
    c.use(W.compact_array_writer, W.legacy_array_writer, R.compact_array_reader, R.legacy_array_reader)
    rng = common.rng_for("C11", "arrays", c.i)
    lengths = [0, 1, 2, 126, 127, 128, 16383, 16384] + [rng.randint(0, 200) for _ in range(10 if c.res.tier == "quick" else 300)]
    items = (
        (W.write_int32, R.read_int32, lambda: rng.randint(-(2**31), 2**31 - 1), lambda v: v.to_bytes(4, "big", signed=True)),
        (W.write_compact_string, R.read_compact_string, lambda: gen.utf8_of_length(rng, rng.randint(0, 6)), lambda v: refcodec.uvarint(len(v.encode()) + 1) + v.encode()),
        (W.write_int8, R.read_int8, lambda: rng.randint(-128, 127), lambda v: v.to_bytes(1, "big", signed=True)),
    )
    for k, n in enumerate(lengths):
        if not c.mine(k):
            continue
        iw, ir, mk, enc = items[k % len(items)]
        vals = tuple(mk() for _ in range(n))
        body = b"".join(enc(v) for v in vals)
        c.expect_encoding(W.compact_array_writer(iw), R.compact_array_reader(ir), vals, refcodec.uvarint(n + 1) + body)
        c.expect_encoding(W.legacy_array_writer(iw), R.legacy_array_reader(ir), vals, n.to_bytes(4, "big") + body)
        c.expect_encoding(W.compact_array_writer(iw), None, list(vals), refcodec.uvarint(n + 1) + body)
        c.distinct += 1
    # the array combinators take any item function: every fixed-width and varint kind, with the ends of its domain among the items
    # (a bulk path that treats one item kind as another shows only there)
    import struct as _struct
    import uuid as _uuid

    def ints(bits: int, signed: bool) -> tuple:
        lo, hi = (-(2 ** (bits - 1)), 2 ** (bits - 1) - 1) if signed else (0, 2**bits - 1)
        return (lo, hi, 0, 1, hi // 2 + 1, lo + 1, hi - 1, (hi // 2) ^ 0x55, -1 if signed else hi // 3)

    kinds = [(getattr(W, f"write_{'' if sg else 'u'}int{b}"), getattr(R, f"read_{'' if sg else 'u'}int{b}"), ints(b, sg),
              (lambda v, b=b, sg=sg: v.to_bytes(b // 8, "big", signed=sg))) for b in (8, 16, 32, 64) for sg in (True, False)]
    kinds += [
        (W.write_float64, R.read_float64, (0.0, -0.0, 1.5, -1e308, 5e-324, math.inf, -math.inf, 2.0**53 + 2), lambda v: _struct.pack(">d", v)),
        (W.write_boolean, R.read_boolean, (True, False, True, True, False), lambda v: b"\x01" if v else b"\x00"),
        (W.write_uuid, R.read_uuid, (_uuid.UUID(int=1), _uuid.UUID(int=2**128 - 1), _uuid.UUID(int=2**127), _uuid.UUID(int=0x0102030405060708090A0B0C0D0E0F10)), lambda v: v.bytes),
        (W.write_unsigned_varint, R.read_unsigned_varint, (0, 1, 127, 128, 16383, 16384, 2**31 - 1), refcodec.uvarint),
        (W.write_signed_varint, R.read_signed_varint, (0, -1, 1, 63, -64, 64, -65, 2**31 - 1, -(2**31)), refcodec.svarint),
        (W.write_signed_varlong, R.read_signed_varlong, (0, -1, 2**63 - 1, -(2**63), 2**31, -(2**31) - 1), refcodec.svarlong),
        (W.write_legacy_string, R.read_legacy_string, ("", "a", "\u00e9\u20ac", "x" * 300), lambda v: len(v.encode()).to_bytes(2, "big") + v.encode()),
        (W.write_compact_string, R.read_compact_string, ("", "a", "\u00e9\u20ac", "x" * 300), lambda v: refcodec.uvarint(len(v.encode()) + 1) + v.encode()),
    ]
    for k, (iw, ir, values, enc) in enumerate(kinds):
        if not c.mine(k):
            continue
        for vals in (tuple(values), tuple(reversed(values)), tuple(values) * 150):
            body = b"".join(enc(v) for v in vals)
            c.expect_encoding(W.compact_array_writer(iw), R.compact_array_reader(ir), vals, refcodec.uvarint(len(vals) + 1) + body)
            c.expect_encoding(W.legacy_array_writer(iw), R.legacy_array_reader(ir), vals, len(vals).to_bytes(4, "big") + body)
            c.distinct += 1
            c.res.count("array_item_kind_cases")
    if c.i == 3 % c.n:
        c.expect_encoding(W.compact_array_writer(W.write_int8), R.compact_array_reader(R.read_int8), None, b"\x00")
        c.expect_encoding(W.legacy_array_writer(W.write_int8), R.legacy_array_reader(R.read_int8), None, b"\xff\xff\xff\xff")
        c.expect_raises(W.legacy_array_writer(W.write_int8), LyingSeq(2**31), what="2**31-item (length-lying)")
        c.expect_raises(W.legacy_array_writer(W.write_int8), LyingSeq(2**40), what="2**40-item (length-lying)")
        for r, data in ((R.compact_array_reader(R.read_int16), b"\x03\x00\x01\x00"), (R.legacy_array_reader(R.read_int16), b"\x00\x00\x00\x02\x00\x01\x00")):
            exc, v, _ = c.read(r, data, tail=b"")
            if not isinstance(exc, c.BufferUnderflow):
                c.bad("reader-short:array", f"array reader on a truncated array gave {exc!r}/{v!r}")


def row_uuid_error_tagged_exact(c: Ctx) -> None:
    R, W = c.R, c.W  # noqa: N806
    from kio.schema.errors import ErrorCode

    c.use(W.write_uuid, R.read_uuid, W.write_error_code, R.read_error_code, W.write_empty_tagged_fields, W.write_tagged_field, R.read_exact)
    rng = common.rng_for("C11", "uuid", c.i)
    if c.i == 4 % c.n:
        c.expect_encoding(W.write_uuid, R.read_uuid, None, b"\x00" * 16)
        for raw in [b"\x00" * 15 + b"\x01", b"\x80" + b"\x00" * 15, b"\xff" * 16, bytes(range(16))] + [rng.randbytes(16) for _ in range(500)]:
            c.expect_encoding(W.write_uuid, R.read_uuid, uuid.UUID(bytes=raw), raw)
        c.distinct += 504
        codes = list(ErrorCode)
        for e in codes:
            c.expect_encoding(W.write_error_code, R.read_error_code, e, int(e).to_bytes(2, "big", signed=True))
            exc, v, _ = c.read(R.read_error_code, int(e).to_bytes(2, "big", signed=True))
            if exc is None and v is not e:
                c.bad("reader-value:read_error_code:identity", f"read_error_code returned {v!r}, not the enum member {e!r}")
        c.res.coverage["error_codes_covered"] = len(codes)
    if c.i == 5 % c.n:
        sink = WriteOnlySink()
        W.write_empty_tagged_fields(sink)
        c.tick(W.write_empty_tagged_fields)
        if sink.observed_bytes() != b"\x00":
            c.bad("writer-bytes:write_empty_tagged_fields", f"write_empty_tagged_fields wrote {sink.observed_bytes().hex()}")
        for tag in (0, 1, 127, 128, 16383, 16384, 2**31 - 1):
            for payload_len in (0, 1, 127, 128, 300):
                payload = rng.randbytes(payload_len)
                sink = WriteOnlySink()
                try:
                    W.write_tagged_field(sink, tag, lambda b, v: b.write(v), payload)
                except Exception as exc:  # noqa: BLE001
                    c.bad("writer-raises:write_tagged_field", f"write_tagged_field(tag={tag}, {payload_len} bytes) raised {exc!r}", error=traceback.format_exc())
                    continue
                c.tick(W.write_tagged_field)
                want = refcodec.uvarint(tag) + refcodec.uvarint(payload_len) + payload
                if sink.observed_bytes() != want:
                    c.bad("writer-bytes:write_tagged_field", f"write_tagged_field(tag={tag}, {payload_len} bytes) wrote {sink.observed_bytes()[:12].hex()}.. expected {want[:12].hex()}..")
        c.distinct += 35
        for n in (0, 1, 2, 17, 4096):
            data = rng.randbytes(n + 3)
            src = ReadOnlySource(data)
            got = R.read_exact(src, n)
            c.tick(R.read_exact)
            if got != data[:n] or src.observed_position() != n:
                c.bad("reader-value:read_exact", f"read_exact(n={n}) returned {len(got)} bytes at position {src.observed_position()}")
            src = ReadOnlySource(data[: max(0, n - 1)])
            try:
                out = R.read_exact(src, n)
                if n > 0:
                    c.bad("reader-short:read_exact", f"read_exact(n={n}) on {max(0, n - 1)} bytes returned {len(out)} bytes")
            except c.BufferUnderflow:
                pass


def _tz_variants(rng):  # noqa: ANN001, ANN202
    return (UTC, datetime.timezone(datetime.timedelta(hours=14)), datetime.timezone(datetime.timedelta(hours=-12)),
            datetime.timezone(datetime.timedelta(minutes=rng.randint(-14 * 60 + 1, 14 * 60 - 1))),
            # UTC offsets with a sub-second (whole-millisecond) part: wall-clock seconds/milliseconds differ from those of the instant
            datetime.timezone(datetime.timedelta(hours=1, milliseconds=500)), datetime.timezone(-datetime.timedelta(milliseconds=1)),
            datetime.timezone(datetime.timedelta(seconds=rng.randint(-3600, 3600), milliseconds=rng.randint(1, 999))))


def row_time(c: Ctx) -> None:
    R, W = c.R, c.W  # noqa: N806
    c.use(W.write_timedelta_i32, R.read_timedelta_i32, W.write_timedelta_i64, R.read_timedelta_i64, W.write_datetime_i64,
          W.write_nullable_datetime_i64, R.read_datetime_i64, R.read_nullable_datetime_i64, R.tz_aware_from_i64)
    rng = common.rng_for("C11", "time", c.i)
    nrand = (3000 if c.res.tier == "quick" else 300000) // c.n
    td = datetime.timedelta
    # i32 durations: whole milliseconds
    for ms in sorted(_int_values(rng, -(2**31), 2**31 - 1, nrand)):
        c.expect_encoding(W.write_timedelta_i32, R.read_timedelta_i32, td(milliseconds=ms), ms.to_bytes(4, "big", signed=True))
        c.distinct += 1
    for ms in sorted(_int_values(rng, gen.TD64_MIN, gen.TD64_MAX, nrand) | {2**53 + 1, -(2**53) - 1, 2**53 - 1, 2**62 // 100}):
        if not gen.TD64_MIN <= ms <= gen.TD64_MAX:
            continue
        c.expect_encoding(W.write_timedelta_i64, R.read_timedelta_i64, td(milliseconds=ms), ms.to_bytes(8, "big", signed=True))
        c.distinct += 1
    if c.i == 6 % c.n:
        # sub-millisecond members are written as one of the two neighbouring whole milliseconds
        for w, width in ((W.write_timedelta_i32, 4), (W.write_timedelta_i64, 8)):
            for us in (1, -1, 499, 500, 501, 999, 1001, 1499, 1500, 1501, 1999, 2600, 30000700, -499, -500, -501, -999, -1999, 2500, -2500, 123456789) + ((2**40 * 1000 + 500,) if width == 8 else ()):
                exc, got = c.write(w, td(microseconds=us))
                c.tick(w)
                if exc is not None:
                    c.bad(f"writer-raises:{w.__name__}", f"{w.__name__}(timedelta(microseconds={us})) raised {exc!r}")
                    continue
                v = int.from_bytes(got, "big", signed=True)
                q, rem = divmod(us, 1000)
                nearest = {q} if rem < 500 else {q + 1} if rem > 500 else {q, q + 1}  # rounding = to the nearest millisecond; an exact tie may go either way
                if len(got) != width or v not in nearest:
                    c.bad(f"writer-rounding:{w.__name__}", f"{w.__name__}(timedelta(microseconds={us})) wrote {v} ms, not the nearest whole millisecond {sorted(nearest)}")
        for ms in (2**31, -(2**31) - 1, 2**40):
            c.expect_raises(W.write_timedelta_i32, td(milliseconds=ms))
    # timestamps
    ms_values = sorted(_int_values(rng, 0, gen.DT_MAX, nrand) | {0, 1, 999, 1000, 1503229838908, gen.DT_MAX, gen.DT_MAX - 1})
    for k, ms in enumerate(ms_values):
        want = ms.to_bytes(8, "big", signed=True)
        dt = EPOCH + ms * MS
        c.expect_encoding(W.write_datetime_i64, R.read_datetime_i64, dt, want)
        c.expect_encoding(W.write_nullable_datetime_i64, R.read_nullable_datetime_i64, dt, want)
        if k % 7 == 0:
            for tz in _tz_variants(rng):
                try:
                    local = dt.astimezone(tz)
                except OverflowError:
                    continue
                c.expect_encoding(W.write_datetime_i64, R.read_datetime_i64, local, want, read_back=dt)
                c.expect_encoding(W.write_nullable_datetime_i64, R.read_nullable_datetime_i64, local, want, read_back=dt)  # the sibling gets the same inputs
        try:
            got = R.tz_aware_from_i64(ms)
            c.tick(R.tz_aware_from_i64)
            if got != dt or got.utcoffset() != datetime.timedelta(0):
                c.bad("reader-value:tz_aware_from_i64", f"tz_aware_from_i64({ms}) returned {got!r}, expected {dt!r}")
        except Exception as exc:  # noqa: BLE001
            c.bad("reader-raises:tz_aware_from_i64", f"tz_aware_from_i64({ms}) raised {exc!r}")
        c.distinct += 1
    if c.i == 5 % c.n:
        # values that compare (and hash) equal and are different members all the same, one after the other through the same function: the two
        # passes through the repeated hour at the end of daylight-saving time (PEP 495: equal within one zone, an hour apart as instants),
        # and the two zeros of the doubles
        try:
            from zoneinfo import ZoneInfo

            zones = [ZoneInfo(z) for z in ("Europe/Berlin", "America/New_York", "Australia/Lord_Howe")]
        except Exception:  # noqa: BLE001
            zones = []
        for z in zones:
            for year in (2021, 2023, 2031):
                # find the repeated wall-clock time of that year in this zone
                probe = datetime.datetime(year, 6 if z.key != "Australia/Lord_Howe" else 1, 1, tzinfo=UTC)
                for _ in range(370 * 24):
                    nxt = probe + datetime.timedelta(hours=1)
                    if nxt.astimezone(z).utcoffset() < probe.astimezone(z).utcoffset():
                        break
                    probe = nxt
                else:
                    continue
                wall = nxt.astimezone(z).replace(tzinfo=None, microsecond=123000)
                first, second = wall.replace(tzinfo=z, fold=0), wall.replace(tzinfo=z, fold=1)
                if first.utcoffset() == second.utcoffset():
                    continue
                for order in ((first, second, first), (second, first, second)):
                    for w, r in ((W.write_datetime_i64, R.read_datetime_i64), (W.write_nullable_datetime_i64, R.read_nullable_datetime_i64)):
                        for twin in order:
                            ms = (twin.astimezone(UTC) - EPOCH) // MS
                            c.expect_encoding(w, r, twin, ms.to_bytes(8, "big", signed=True), read_back=EPOCH + ms * MS)
                            c.res.count("equal_but_different_members_in_sequence")
        import struct as _struct

        for order in ((0.0, -0.0, 0.0), (-0.0, 0.0, -0.0)):
            for x in order:
                c.expect_encoding(W.write_float64, R.read_float64, x, _struct.pack(">d", x))
                c.res.count("equal_but_different_members_in_sequence")
    if c.i == 7 % c.n:
        c.expect_encoding(W.write_nullable_datetime_i64, R.read_nullable_datetime_i64, None, (-1).to_bytes(8, "big", signed=True))
        for r in (R.read_datetime_i64, R.read_nullable_datetime_i64):
            for ms in (-2, -1000, -(2**63), gen.DT_MAX + 1, 2**63 - 1):
                if r is R.read_nullable_datetime_i64 and ms == -1:
                    continue
                exc, v, _ = c.read(r, ms.to_bytes(8, "big", signed=True))
                c.tick(r)
                if exc is None:
                    c.bad(f"reader-accepts-out-of-domain:{r.__name__}", f"{r.__name__}({ms}) returned {v!r} for a timestamp outside [0, 9999-12-31]")
                elif not isinstance(exc, (ValueError, OverflowError, c.OutOfBoundValue)):
                    c.bad(f"reader-wrong-error:{r.__name__}", f"{r.__name__}({ms}) raised {exc!r}")
        exc, v, _ = c.read(R.read_datetime_i64, (-1).to_bytes(8, "big", signed=True))
        if exc is None:
            c.bad("reader-accepts-null:read_datetime_i64", f"read_datetime_i64(-1) returned {v!r}")


class _Boom(Exception):
    pass


def row_after_failure(c: Ctx) -> None:
    """A call that fails part-way (item writer raises after some output, sink error, out-of-domain value) must not influence the
    next call of the same function."""
    R, W = c.R, c.W  # noqa: N806
    if c.i != 8 % c.n:
        return

    def part_then_boom(buf, v):  # noqa: ANN001, ANN202
        buf.write(b"\xde\xad")
        raise _Boom

    def quiet(fn, *a):  # noqa: ANN001, ANN002, ANN202
        try:
            fn(*a)
        except Exception:  # noqa: BLE001
            pass
        c.res.count("failed_calls_injected")

    # write_tagged_field: value writer fails after producing bytes, then a normal call
    for tag, payload in ((3, b"\x00\x00\x00\x05"), (0, b""), (200, b"x" * 130)):
        quiet(W.write_tagged_field, WriteOnlySink(), 1, part_then_boom, None)
        quiet(W.write_tagged_field, WriteOnlySink(), 1, W.compact_array_writer(W.write_int32), (1, 2**31))
        sink = WriteOnlySink()
        W.write_tagged_field(sink, tag, lambda b, v: b.write(v), payload)
        c.tick(W.write_tagged_field)
        want = refcodec.uvarint(tag) + refcodec.uvarint(len(payload)) + payload
        if sink.observed_bytes() != want:
            c.bad("after-failure:write_tagged_field", f"after a failed call, write_tagged_field(tag={tag}) wrote {sink.observed_bytes().hex()[:60]} instead of {want.hex()[:60]}")
    # array writers: an item fails in the middle, then a normal call
    for mk, rd in ((W.compact_array_writer, R.compact_array_reader), (W.legacy_array_writer, R.legacy_array_reader)):
        w = mk(W.write_int32)
        quiet(w, WriteOnlySink(), (1, 2, 2**31, 4))
        quiet(w, WriteOnlySink(fail_at=2, fail_exc=OSError("injected")), (1, 2, 3))
        head = refcodec.uvarint(3) if mk is W.compact_array_writer else (2).to_bytes(4, "big")
        c.expect_encoding(w, rd(R.read_int32), (7, -7), head + (7).to_bytes(4, "big", signed=True) + (-7).to_bytes(4, "big", signed=True))
    # every simple writer: a sink error on the first write, then a normal call
    simple = ((W.write_int32, R.read_int32, 5, (5).to_bytes(4, "big")), (W.write_unsigned_varint, R.read_unsigned_varint, 300, refcodec.uvarint(300)),
              (W.write_signed_varlong, R.read_signed_varlong, -2**40, refcodec.svarlong(-2**40)), (W.write_compact_string, R.read_compact_string, "héllo", b"\x07h\xc3\xa9llo"),
              (W.write_nullable_legacy_string, R.read_nullable_legacy_string, "ab", b"\x00\x02ab"), (W.write_legacy_bytes, R.read_legacy_bytes, b"\x01\x02", b"\x00\x00\x00\x02\x01\x02"),
              (W.write_uuid, R.read_uuid, uuid.UUID(int=5), (5).to_bytes(16, "big")), (W.write_float64, R.read_float64, 1.5, f64_bits(1.5).to_bytes(8, "big")),
              (W.write_timedelta_i64, R.read_timedelta_i64, datetime.timedelta(milliseconds=12345), (12345).to_bytes(8, "big")),
              (W.write_datetime_i64, R.read_datetime_i64, EPOCH + 1503229838908 * MS, (1503229838908).to_bytes(8, "big")))
    for w, r, v, want in simple:
        for k in (0, 1):
            quiet(w, WriteOnlySink(fail_at=k, fail_exc=OSError("injected")), v)
        # a reader that hit a short stream, then a normal call
        exc, _, _ = c.read(r, want[:-1], tail=b"")
        c.res.count("failed_calls_injected")
        c.expect_encoding(w, r, v, want)


ROWS = (row_after_failure, row_fixed_ints, row_bool_float, row_varints, row_strings, row_arrays, row_uuid_error_tagged_exact, row_time)


def public_functions() -> set[str]:
    import kio.serial.readers as R  # noqa: N812
    import kio.serial.writers as W  # noqa: N812

    out = set()
    for m in (R, W):
        for name, v in vars(m).items():
            if not name.startswith("_") and inspect.isfunction(v) and v.__module__ == m.__name__:
                out.add(name)
    return out


def c11_worker(res: Result, i: int, n: int) -> None:
    c = Ctx(res, i, n)
    for row in ROWS:
        try:
            row(c)
        except Exception:  # noqa: BLE001
            res.inconclusive_because(f"row {row.__name__} crashed: {traceback.format_exc()[-800:]}")
    res.coverage["functions_covered"] = sorted(c.covered)
    res.coverage["evaluations_per_function"] = c.per_fn
    res.coverage["distinct_domain_values"] = c.distinct
    if i == 0:
        res.sample({"function": "write_signed_varint", "value": -64, "bytes": refcodec.svarint(-64)})
        res.sample({"function": "write_unsigned_varint", "value": 16384, "bytes": refcodec.uvarint(16384)})
        res.sample({"function": "write_float64", "value": 1.5, "bytes": f64_bits(1.5).to_bytes(8, "big")})


def run(prop: str, tier_: str) -> int:
    res = Result("C11", "exploration", tier_)
    errs = refcodec.self_test()
    for x, want in ((1.0, 0x3FF0000000000000), (-2.0, 0xC000000000000000), (5e-324, 1), (0.1, 0x3FB999999999999A), (1.7976931348623157e308, 0x7FEFFFFFFFFFFFFF)):
        if f64_bits(x) != want or f64_from_bits(want) != x:
            errs.append(f"f64_bits({x})")
    if errs:
        res.inconclusive_because("reference self-test failed: " + "; ".join(errs[:3]))
    shard.run(res, "kv.checks.prims:c11_worker", timeout=900 if tier_ == "quick" else 7200)
    public = public_functions()
    covered = set(res.coverage.get("functions_covered", []))
    per_fn = res.coverage.get("evaluations_per_function", {})
    missing = sorted(public - covered)
    idle = sorted(f for f in public if per_fn.get(f, 0) == 0 and f not in ("compact_array_writer", "legacy_array_writer", "compact_array_reader", "legacy_array_reader"))
    res.coverage["public_functions"] = len(public)
    res.coverage["public_functions_covered"] = len(public & covered)
    if missing:
        res.inconclusive_because(f"public functions without a table row: {missing}")
    if idle:
        res.inconclusive_because(f"public functions whose row never evaluated them: {idle}")
    res.assumptions.append("reference primitives: own varint/zig-zag, int.to_bytes, own IEEE-754 encoder (math.frexp), exact integer time arithmetic")
    return res.finish(
        res.counters.get("evaluations", 0), int(res.coverage.get("distinct_domain_values", 0)),
        "table pairing every public callable of kio.serial.readers/writers (enumerated with inspect at run time) with a domain, "
        "a reference encoding and its partner; exhaustive 8/16-bit ints and small varints, every short byte string as varint input, "
        "power-of-two neighbourhoods and seeded random values for wide types, boundary lengths for strings/bytes/arrays, out-of-domain "
        "values must raise without output; distinct = distinct domain values driven",
        floor_ok=not missing and not idle and res.counters.get("out_of_domain_probes", 0) > 50,
    )


def replay(prop: str, path: str) -> int:
    return common.replay_by_rerun(prop, path, run)
