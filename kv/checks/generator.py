"""C16: the generator translates any well-formed message definition faithfully.

Programs = mutated pinned definitions + random definitions.  Each batch is pushed through the
*real* generator in a scratch tree (fresh subprocess), the generated package is imported in
another subprocess (``--eval``) where every declared version of every definition is compared
with the independent interpretation and, byte for byte, with the reference codec.
"""
from __future__ import annotations

import hashlib
import importlib
import json
import os
import re
import subprocess
import sys
import tempfile
import traceback

from .. import common, defgen, defs, interpret
from ..common import Result

D6 = "D6-generator-drops-nullable-on-primitive-arrays"
DECLINE_OK = ("NotImplementedError", "AssertionError", "ValidationError")
BATCH = 24


def programs(tier_: str) -> list[dict]:
    total = 480 if tier_ == "quick" else 14400
    pins = defs.pinned_definitions()
    cand = [d for name, d in sorted(pins.items()) if name not in defs.ALWAYS]
    out = _handcrafted()
    k = 0
    used_api: set[str] = {interpret.api_name(d) for d in out}
    while len(out) < total:
        rng = common.rng_for("C16", "program", k)
        k += 1
        if k % 2:
            d = defgen.mutate(rng, rng.choice(cand), rng.randint(1, 3))
            api = interpret.api_name(d)
            if api in used_api:
                continue
            used_api.add(api)
            out.append(d)
        else:
            out += defgen.random_definition(rng, used_api)
    return out[:total]


def _handcrafted() -> list[dict]:
    """Definitions that make a point the random grammar only makes by luck."""
    import builtins
    import keyword

    out = []
    # one field for every lower-case builtin name: the attribute gets a trailing underscore for each of them (PEP 8), not only for the
    # dozen that the word list of the random grammar can spell
    names = [n for n in sorted(dir(builtins)) if n.islower() and n.isidentifier() and not n.startswith("_") and not keyword.iskeyword(n) and len(n) >= 2]
    chunks = [names[i:i + 40] for i in range(0, len(names), 40)]
    for k, chunk in enumerate(chunks):
        out.append({"type": "data", "name": f"BuiltinNames{k}Data", "validVersions": "0-1", "flexibleVersions": "1+",
                    "fields": [{"name": n.capitalize(), "type": "int32", "versions": "0+"} for n in chunk],
                    "_constructs": ["handcrafted:builtin-names"], "_origin": "hand-crafted: fields named after builtins"})
    # tagged fields whose type is a common struct: single (every member defaulted, so the field's own default is derivable) and array
    out.append({"apiKey": 9001, "type": "request", "name": "TaggedCommonRequest", "validVersions": "0-1", "flexibleVersions": "0+",
                "fields": [{"name": "Plain", "type": "int16", "versions": "0+"},
                           {"name": "State", "type": "Cfg", "versions": "0+", "taggedVersions": "0+", "tag": 0},
                           {"name": "States", "type": "[]Cfg", "versions": "1+", "taggedVersions": "1+", "tag": 1},
                           {"name": "Inline", "type": "Cfg", "versions": "0+"}],
                "commonStructs": [{"name": "Cfg", "versions": "0+", "fields": [{"name": "Level", "type": "int32", "versions": "0+", "default": "5"},
                                                                               {"name": "Label", "type": "string", "versions": "0+", "default": "x"}]}],
                "_constructs": ["handcrafted:tagged-common-struct"], "_origin": "hand-crafted: tagged common-struct fields"})
    # two definitions of one generator run whose nested structs share a name (names are unique per definition only) and differ in whether
    # every member has a default - which decides whether the tagged field that holds the struct gets a default of its own
    for nm, key, dflt in (("TwinAlphaResponse", 9003, True), ("TwinBetaResponse", 9004, False), ("TwinGammaResponse", 9005, True)):
        member = (lambda n, t: {"name": n, "type": t, "versions": "0+", **({"default": "-1"} if dflt else {})})
        out.append({"apiKey": key, "type": "response", "name": nm, "validVersions": "0-1", "flexibleVersions": "0+",
                    "fields": [{"name": "ErrorCode", "type": "int16", "versions": "0+"},
                               {"name": "CurrentLeader", "type": "LeaderIdAndEpoch", "versions": "0+", "taggedVersions": "0+", "tag": 0,
                                "fields": [member("LeaderId", "int32"), member("LeaderEpoch", "int32")]}],
                    "_constructs": ["handcrafted:same-nested-name-across-definitions"], "_origin": "hand-crafted: nested struct name shared across definitions"})
    # more tagged fields than one-byte tag numbers (upstream wants tags contiguous from 0, so large tags mean many fields): tag, count and the
    # order of the section all go beyond the single-byte varint
    out.append({"apiKey": 9002, "type": "request", "name": "ManyTagsRequest", "validVersions": "0", "flexibleVersions": "0+",
                "fields": [{"name": "Plain", "type": "int16", "versions": "0+"}]
                + [{"name": f"Opt{k}", "type": "int32" if k % 3 else "int16", "versions": "0+", "taggedVersions": "0+", "tag": k} for k in range(300)],
                "_constructs": ["handcrafted:many-tags"], "_origin": "hand-crafted: 300 contiguous tagged fields"})
    return out


def in_subset(d: dict) -> str | None:
    try:
        for v in interpret.versions_of(d):
            interpret.interpret(defgen.strip_private(d), v)
    except interpret.Unsupported as exc:
        return str(exc)
    except Exception as exc:  # noqa: BLE001
        return f"interpreter error {exc!r}"
    return None


def _file_name(d: dict) -> str:
    return d["name"] + ".json"


def _decline_type(stderr: str) -> str:
    lines = [ln for ln in stderr.strip().splitlines() if ln and not ln.startswith((" ", "\t", "🧑", "💥"))]
    for ln in reversed(lines):
        m = re.match(r"^([A-Za-z_][\w.]*)(:|$)", ln)
        if m and (m.group(1)[0].isupper() or "." in m.group(1)):
            return m.group(1).split(".")[-1]
    return "unknown"


def c16_worker(res: Result, i: int, n: int) -> None:
    progs = programs(res.tier)
    batches = [progs[k:k + BATCH] for k in range(0, len(progs), BATCH)]
    pins = defs.pinned_definitions()
    always = {name: pins[name] for name in defs.ALWAYS}
    constructs: dict[str, int] = {}
    rejected: dict[str, int] = {}
    distinct: set[bytes] = set()
    for bi in range(i, len(batches), n):
        batch = []
        for d in batches[bi]:
            why = in_subset(d)
            if why is not None:
                res.count("outside_supported_subset")
                constructs["outside-subset:" + why[:50]] = constructs.get("outside-subset:" + why[:50], 0) + 1
                continue
            batch.append(d)
        if not batch:
            continue
        survivors = _generate_with_bisect(res, batch, always, rejected)
        if not survivors:
            continue
        sdefs = dict(always)
        sdefs.update({_file_name(d): defgen.strip_private(d) for d in survivors})
        with defs.Scratch(sdefs) as sc:
            g = sc.generate()
            if g.returncode != 0:
                res.inconclusive_because(f"batch {bi}: generator failed on definitions that each passed alone: {g.stderr[-600:]}")
                continue
            tmp = tempfile.mkdtemp(prefix="kv-c16-")
            try:
                bfile, ofile = os.path.join(tmp, "batch.json"), os.path.join(tmp, "out.json")
                json.dump({"defs": survivors, "tier": res.tier, "batch": bi}, open(bfile, "w"))
                env = sc.env()
                env["KIO_REPO"] = str(sc.root)
                env["VERIF_SEED"] = str(common.seed())
                p = subprocess.run([sys.executable, "-m", "kv.checks.generator", "--eval", bfile, ofile], cwd=str(common.VERIF), env=env,
                                   capture_output=True, text=True, timeout=1200)
                if p.returncode != 0 or not os.path.exists(ofile):
                    res.inconclusive_because(f"batch {bi}: evaluation subprocess failed: {p.stderr[-800:]}")
                    continue
                out = json.load(open(ofile))
            finally:
                import shutil

                shutil.rmtree(tmp, ignore_errors=True)
        for v in out["violations"]:
            if v["kind"] == "D6":
                res.known_or_violation(D6, "D6:" + v["key"], v["summary"], v["payload"])
            else:
                res.violation(v["key"], v["summary"], v["payload"])
        for k, c in out["counters"].items():
            res.count(k, c)
        for d in survivors:
            res.count("programs")
            for c in d.get("_constructs", []):
                constructs[c] = constructs.get(c, 0) + 1
            distinct.add(hashlib.sha256(json.dumps(defgen.strip_private(d), sort_keys=True).encode()).digest()[:12])
        for s in out.get("samples", []):
            res.sample(s)
    res.coverage["construct_histogram"] = constructs
    res.coverage["rejected_by_generator"] = rejected
    res.coverage["distinct_programs"] = len(distinct)


def _generate_with_bisect(res: Result, batch: list[dict], always: dict, rejected: dict) -> list[dict]:
    sdefs = dict(always)
    sdefs.update({_file_name(d): defgen.strip_private(d) for d in batch})
    with defs.Scratch(sdefs) as sc:
        g = sc.generate()
    if g.returncode == 0:
        return batch
    survivors = []
    for d in batch:
        one = dict(always)
        one[_file_name(d)] = defgen.strip_private(d)
        with defs.Scratch(one) as sc:
            g1 = sc.generate(steps="recreate,errors,schema")
            g2 = sc.generate(steps="index") if g1.returncode == 0 else None
        if g1.returncode == 0 and g2.returncode == 0:
            survivors.append(d)
            continue
        if g1.returncode == 0:
            # the generator accepted the definition but what it wrote cannot be imported / indexed
            res.violation(f"generated-unimportable:{_decline_type(g2.stderr)}",
                          f"the package generated from a supported definition ({d['_origin']}) does not import: {g2.stderr.strip().splitlines()[-1][:300]}",
                          {"definition": defgen.strip_private(d), "stderr": g2.stderr[-3000:]})
            continue
        et = _decline_type(g1.stderr)
        res.count("rejected_by_generator")
        rejected[et] = rejected.get(et, 0) + 1
        # every definition that reaches the generator has been accepted by the independent reader of the format (interpret) as part of the
        # supported subset, and on the unchanged tree the generator declines none of them: declining one ("not implemented") is as much a
        # failure to translate it as crashing on it
        res.violation(f"generator-{'declines' if et in DECLINE_OK else 'crash'}:{et}",
                      f"the generator {'declined' if et in DECLINE_OK else 'crashed on'} a definition of the supported subset with {et} ({d['_origin']}): {g1.stderr.strip().splitlines()[-1][:300]}",
                      {"definition": defgen.strip_private(d), "stderr": g1.stderr[-3000:]})
    return survivors


# ---------------------------------------------------------------------------------------
# evaluation inside the scratch interpreter (KIO_REPO = scratch root)


def _eval(batch_file: str, out_file: str) -> int:
    from .. import describe, gen, refcodec
    from kio.serial import entity_reader, entity_writer
    import io

    doc = json.load(open(batch_file))
    violations: list[dict] = []
    counters: dict[str, int] = {}
    samples: list = []

    def count(k: str, n: int = 1) -> None:
        counters[k] = counters.get(k, 0) + n

    def bad(kind: str, key: str, summary: str, payload: dict) -> None:
        violations.append({"kind": kind, "key": key, "summary": summary, "payload": common.jsonable(payload)})

    expected_modules: set[str] = set()
    for d in doc["defs"]:
        clean = defgen.strip_private(d)
        origin = d.get("_origin", "?")
        for v in interpret.versions_of(clean):
            m = interpret.interpret(clean, v)
            expected_modules.add(m.module)
            count("versions")
            where = f"{m.module} [{origin}]"
            try:
                mod = importlib.import_module(m.module)
            except BaseException as exc:  # noqa: BLE001
                bad("import", f"unimportable:{type(exc).__name__}", f"{where}: the generated module does not import: {exc!r}",
                    {"definition": clean, "version": v, "error": traceback.format_exc()[-2000:]})
                continue
            live = {k: c for k, c in vars(mod).items() if isinstance(c, type) and c.__module__ == m.module and hasattr(c, "__dataclass_fields__")}
            try:
                import ast as _ast

                names = [n.name for n in _ast.parse(open(mod.__file__).read()).body if isinstance(n, _ast.ClassDef)]
                dup = sorted({x for x in names if names.count(x) > 1})
                if dup:
                    bad("classes", "class-defined-twice", f"{where}: the generated module defines {dup} more than once (one class per structure)", {"definition": clean, "version": v})
                    continue
            except OSError:
                pass
            if set(live) != set(m.classes):
                bad("classes", "class-set", f"{where}: generated classes {sorted(live)} != structures visible in v{v} {sorted(m.classes)}", {"definition": clean, "version": v})
                continue
            ok_classes = True
            # pass 1: the known generator finding D6 is reported and its adjusted oracle applied to the expectation, so that
            # everything that depends on it (nested defaults, bytes) is judged against the adjusted expectation
            for cname, exp in m.classes.items():
                try:
                    ls0 = describe.spec_from_class(live[cname])
                except Exception:  # noqa: BLE001
                    continue
                for kind, msg in interpret.compare_spec(exp, ls0, f"{m.module}:{cname}"):
                    if kind == "D6":
                        bad(kind, f"field-{kind}", f"[{origin}] {msg}", {"definition": clean, "version": v, "class": cname})
                        e = exp.field(msg.split(": ")[0].rsplit(".", 1)[1])
                        e.nullable, e.default = False, []
            for cname, exp in m.classes.items():
                cls = live[cname]
                count("classes")
                count("fields_compared", len(exp.fields))
                try:
                    ls = describe.spec_from_class(cls)
                except Exception as exc:  # noqa: BLE001
                    bad("describe", f"undescribable:{type(exc).__name__}", f"{where}:{cname}: generated class is not well-formed: {exc!r}", {"definition": clean, "version": v})
                    ok_classes = False
                    continue
                for kind, msg in interpret.compare_spec(exp, ls, f"{m.module}:{cname}"):
                    bad(kind, f"field-{kind}", f"[{origin}] {msg}", {"definition": clean, "version": v, "class": cname})
                    ok_classes = False
                # the declared Python type: exactly the kio type that stands for the Kafka type (the codec goes by kafka_type, so a wider or
                # narrower annotation changes no byte), or an entity type deriving directly from it
                from .structure import _expected_pytype

                for fs_ in ls.fields:
                    if fs_.kind != "prim":
                        continue
                    want_py = _expected_pytype(fs_.ktype)
                    got_py = fs_.pytype
                    if not (got_py is want_py or (isinstance(got_py, type) and got_py.__module__ == "kio.schema.types" and want_py in got_py.__bases__)):
                        bad("pytype", f"pytype:{fs_.ktype}", f"[{origin}] {m.module}:{cname}.{fs_.name}: declared Python type {getattr(got_py, '__name__', got_py)!r} for kafka type "
                            f"{fs_.ktype} (expected {want_py.__name__})", {"definition": clean, "version": v, "class": cname})
                        ok_classes = False
                want_type = m.type if cname == m.top else "nested"
                cv = {"__type__": cls.__type__.name, "__version__": int(cls.__version__), "__flexible__": bool(cls.__flexible__)}
                wv = {"__type__": want_type, "__version__": v, "__flexible__": m.flexible}
                if m.api_key is not None:
                    cv["__api_key__"] = int(getattr(cls, "__api_key__", -999999))
                    wv["__api_key__"] = m.api_key
                    hs = getattr(cls, "__header_schema__", None)
                    cv["__header_schema__"] = f"{hs.__module__}:{hs.__qualname__}" if hs is not None else None
                    wv["__header_schema__"] = m.header
                elif hasattr(cls, "__api_key__") or hasattr(cls, "__header_schema__"):
                    cv["spurious-payload-attributes"] = True
                if cv != wv:
                    diff = [k for k in set(cv) | set(wv) if cv.get(k) != wv.get(k)]
                    bad("classvars", f"classvar-{diff[0]}", f"{where}:{cname}: class attributes {({k: cv.get(k) for k in diff})} != expected {({k: wv.get(k) for k in diff})}",
                        {"definition": clean, "version": v, "class": cname})
                    ok_classes = False
                p = cls.__dataclass_params__
                if not (p.frozen and p.eq and "__slots__" in vars(cls) and all(f.kw_only for f in cls.__dataclass_fields__.values())):
                    bad("options", "dataclass-options", f"{where}:{cname}: not a frozen/slots/kw_only dataclass", {"definition": clean, "version": v})
            for path, tname in m.custom_types.items():
                cn, fn = path.split(".")
                try:
                    got = describe.spec_from_class(live[cn]).field(fn).pytype.__name__
                except Exception:  # noqa: BLE001
                    continue
                if got != tname:
                    bad("custom-type", "custom-type", f"{where}:{path}: entity type {got} != expected {tname}", {"definition": clean, "version": v})
            if not ok_classes:
                continue
            # byte level: instances of every class of the module vs the reference codec driven by the definition
            rng = common.rng_for("C16", "instances", m.module)
            g = gen.Gen(rng, "canonical", big_prob=0.0, max_items=3)
            for cname, exp in m.classes.items():
                cls = live[cname]
                ls = describe.spec_from_class(cls)
                trees = g.each_choice(exp, extra_random=1)
                if doc["tier"] == "quick":
                    rng.shuffle(trees)
                    trees = trees[:6]
                if exp.tagged:
                    # every tagged field on the wire at once: the order and framing of the whole tagged section
                    try:
                        full = g.all_tags_nondefault(exp)
                    except Exception:  # noqa: BLE001
                        full = None
                    if full is not None:
                        trees.insert(0, full)
                        count("instances_with_every_tagged_field_set")
                for tree in trees:
                    count("instances_encoded")
                    try:
                        want = refcodec.encode_bytes(exp, tree)
                        inst = describe.tree_to_instance(ls, tree)
                        buf = io.BytesIO()
                        entity_writer(cls)(buf, inst)
                        got = buf.getvalue()
                        back = entity_reader(cls)(io.BytesIO(got))
                    except Exception as exc:  # noqa: BLE001
                        bad("codec", f"codec-raises:{type(exc).__name__}", f"{where}:{cname}: encoding/decoding an instance of the generated class raised {exc!r}",
                            {"definition": clean, "version": v, "class": cname, "tree": tree, "error": traceback.format_exc()[-1500:]})
                        break
                    if got != want:
                        bad("bytes", "bytes-differ", f"{where}:{cname}: generated class encodes to {got[:24].hex()}.., the definition prescribes {want[:24].hex()}.. "
                            f"(first difference at byte {refcodec.first_diff(got, want)})", {"definition": clean, "version": v, "class": cname, "tree": tree, "kio": got, "reference": want})
                        break
                    if back != inst:
                        bad("roundtrip", "decode-differs", f"{where}:{cname}: instance of the generated class does not decode back equal", {"definition": clean, "version": v, "class": cname, "tree": tree})
                        break
                    count("instances_ok")
            if len(samples) < 2 and len(clean["fields"]) > 1:
                samples.append({"definition": clean, "version": v, "module": m.module, "classes": sorted(m.classes)})
    # the generated index lists exactly the generated modules
    try:
        idx = importlib.import_module("kio.schema.index")
        listed = {p.split(":")[0] for vm in idx.schema_name_map.values() for tm in vm.values() for p in tm.values()}
        pins = defs.pinned_definitions()
        for name in defs.ALWAYS:
            for v in interpret.versions_of(pins[name]):
                expected_modules.add(interpret.interpret(pins[name], v).module)
        count("index_modules_checked", len(expected_modules))
        if listed != expected_modules:
            bad("index", "index-modules", f"generated index lists {len(listed)} modules, {len(expected_modules)} were generated; "
                f"missing {sorted(expected_modules - listed)[:4]} extra {sorted(listed - expected_modules)[:4]}", {"missing": sorted(expected_modules - listed), "extra": sorted(listed - expected_modules)})
        keys = {}
        for d in doc["defs"]:
            if "apiKey" in d:
                keys.setdefault(d["apiKey"], set()).add(interpret.api_name(d))
        for k, names in keys.items():
            if len(names) == 1 and idx.api_key_map.get(k) not in names and k != 3:
                bad("index", "index-key", f"api_key_map[{k}] = {idx.api_key_map.get(k)!r}, expected {sorted(names)}", {"key": k})
    except Exception as exc:  # noqa: BLE001
        bad("index", "index-import", f"generated index does not import: {exc!r}", {"error": traceback.format_exc()[-1500:]})
    json.dump({"violations": violations, "counters": counters, "samples": samples}, open(out_file, "w"))
    return 0


def run(prop: str, tier_: str) -> int:
    from .. import refcodec, shard

    res = Result("C16", "translation_validation", tier_)
    errs = refcodec.self_test()
    if errs:
        res.inconclusive_because("reference codec self-test failed: " + "; ".join(errs[:3]))
    shard.run(res, "kv.checks.generator:c16_worker", timeout=1500 if tier_ == "quick" else 7200)
    c = res.counters
    res.coverage["programs"] = c.get("programs", 0)
    res.coverage["disagreements_checked"] = c.get("fields_compared", 0) + c.get("classes", 0) + c.get("instances_encoded", 0) + c.get("index_modules_checked", 0)
    hist = res.coverage.get("construct_histogram", {})
    needed = ("type:request", "type:response", "type:header", "type:data", "taggedVersions", "nullableVersions", "commonStructs", "flexibleVersions:none",
              "flexibleVersions:N+", "versions:N-M", "versions:N+", "default:null", "default:int:hex", "entityType", "array-of-struct", "struct", "origin:mutated-pin")
    missing = [k for k in needed if not hist.get(k)]
    res.coverage["constructs_never_generated"] = missing
    rejected = c.get("rejected_by_generator", 0)
    floor_ok = c.get("programs", 0) >= 100 and c.get("instances_ok", 0) > 1000 and not missing and rejected <= 0.25 * max(1, c.get("programs", 0) + rejected)
    res.assumptions += ["supported subset of the definition format as in DESIGN.md 5.10 (judged by the independent interpreter kv/interpret.py)",
                        "a definition of the supported subset (as judged by kv/interpret.py) that the generator declines or crashes on is a violation"]
    return res.finish(c.get("programs", 0) + c.get("versions", 0) + c.get("instances_encoded", 0), int(res.coverage.get("distinct_programs", 0)),
                      "programs = mutated pinned definitions (version ranges, flexibility, nullability, tagging, defaults, types, fields, api keys, names) and "
                      "random definitions from a grammar over the supported subset; each batch goes through the real generator in a scratch tree; for every "
                      "declared version the generated classes are compared with an independent interpretation of the definition (fields, order, naming, types, "
                      "nullability, tags, defaults by value, flexibility, key, header) and instances are encoded by kio and compared byte-for-byte with the "
                      "reference codec driven by the definition; the generated index must list exactly the generated modules; distinct = distinct definitions",
                      floor_ok)


def replay(prop: str, path: str) -> int:
    doc = common.load_replay(path)
    case = doc["case"]
    res = Result("C16", "translation_validation", doc.get("tier", "quick"))
    d = dict(case["definition"])
    d.setdefault("_origin", "replay")
    print(f"replay C16: definition {d.get('name')} ({doc['key']})")
    why = in_subset(d)
    if why is not None:
        print(f"definition is outside the supported subset now: {why}")
        return common.EXIT_INCONCLUSIVE
    pins = defs.pinned_definitions()
    always = {name: pins[name] for name in defs.ALWAYS}
    survivors = _generate_with_bisect(res, [d], always, {})
    if survivors:
        sdefs = dict(always)
        sdefs[_file_name(d)] = defgen.strip_private(d)
        with defs.Scratch(sdefs) as sc:
            g = sc.generate()
            tmp = tempfile.mkdtemp(prefix="kv-c16-")
            try:
                bfile, ofile = os.path.join(tmp, "batch.json"), os.path.join(tmp, "out.json")
                json.dump({"defs": [d], "tier": "thorough", "batch": 0}, open(bfile, "w"))
                env = sc.env()
                env["KIO_REPO"] = str(sc.root)
                p = subprocess.run([sys.executable, "-m", "kv.checks.generator", "--eval", bfile, ofile], cwd=str(common.VERIF), env=env, capture_output=True, text=True, timeout=1200)
                if g.returncode != 0 or p.returncode != 0:
                    res.inconclusive_because(f"generation/evaluation failed: {(g.stderr + p.stderr)[-600:]}")
                else:
                    for v in json.load(open(ofile))["violations"]:
                        if v["kind"] == "D6":
                            res.known_or_violation(D6, "D6:" + v["key"], v["summary"], v["payload"])
                        else:
                            res.violation(v["key"], v["summary"], v["payload"])
            finally:
                import shutil

                shutil.rmtree(tmp, ignore_errors=True)
    return common.finish_replay(res)


if __name__ == "__main__":
    if len(sys.argv) == 4 and sys.argv[1] == "--eval":
        sys.exit(_eval(sys.argv[2], sys.argv[3]))
    sys.exit(2)
