"""C07: messages are self-delimiting on a sequential stream; sink/source kind does not matter."""
from __future__ import annotations

import asyncio
import hashlib
import io
import os
import socket
import sys
import threading
import traceback

from .. import common, describe, gen, refcodec, shard, walk
from ..common import Result
from ..streams import ReadOnlySource, SpyBytesIO, WriteOnlySink

SINK_KINDS = ("bytesio", "write_only", "spy_bytesio", "socket_file", "pipe_file", "asyncio_stream_writer", "disk_file_wb", "disk_file_ab")
SOURCE_KINDS = ("bytesio", "read_only", "spy_bytesio", "socket_buffered_reader", "pipe_buffered_reader", "disk_file_rb")


def _payload_classes() -> list[type]:
    out = []
    for m in walk.modules():
        if m.type in ("request", "response"):
            out += walk.top_level(m)
    return out


def _drain(sock_or_fd, chunks: list, is_fd: bool) -> None:  # noqa: ANN001
    try:
        while True:
            data = os.read(sock_or_fd, 65536) if is_fd else sock_or_fd.recv(65536)
            if not data:
                return
            chunks.append(data)
    except OSError:
        return


class _CCalls:
    """Records the names of C-level methods called on one object while active (sys.setprofile c_call events), other than the allowed ones."""

    def __init__(self, obj: object, allowed: tuple[str, ...]) -> None:
        self.obj, self.allowed, self.foreign, self._on = obj, allowed, [], False

    def _hook(self, frame, event, arg):  # noqa: ANN001, ANN202
        if self._on and event == "c_call" and getattr(arg, "__self__", None) is self.obj and arg.__name__ not in self.allowed and len(self.foreign) < 20:
            self.foreign.append(arg.__name__)

    def pause(self) -> None:
        self._on = False

    def resume(self) -> None:
        self._on = True

    def __enter__(self) -> "_CCalls":
        self._prev = sys.getprofile()
        self._on = True
        sys.setprofile(self._hook)
        return self

    def __exit__(self, *a: object) -> None:
        sys.setprofile(self._prev)
        self._on = False


def _write_all(kind: str, writers_and_values: list, prefix: bytes, suffix: bytes, loop) -> tuple[bytes, list, int]:  # noqa: ANN001
    """Write prefix, every (writer, value) in order, suffix to one sink of the kind.
    Returns (bytes that arrived, foreign events, write calls observed or -1)."""
    if kind == "bytesio":
        buf = io.BytesIO()
        buf.write(prefix)
        with _CCalls(buf, allowed=("write",)) as spy:
            for w, v in writers_and_values:
                w(buf, v)
        buf.write(suffix)
        return buf.getvalue(), [("c-call", name) for name in spy.foreign], -1
    if kind in ("disk_file_wb", "disk_file_ab"):
        # regular, seekable files: written from the start, and appended to a file that already holds the leading bytes (in append mode the
        # position reported by tell() is not where a seek() + write() would land)
        import tempfile

        with tempfile.TemporaryDirectory(prefix="kv-c07-") as d:
            path = os.path.join(d, "stream.bin")
            if kind == "disk_file_ab":
                with open(path, "wb") as f:
                    f.write(prefix)
            with open(path, "wb" if kind == "disk_file_wb" else "ab") as f:
                if kind == "disk_file_wb":
                    f.write(prefix)
                for w, v in writers_and_values:
                    w(f, v)
                f.write(suffix)
            with open(path, "rb") as f:
                return f.read(), [], -1
    if kind == "write_only":
        sink = WriteOnlySink()
        sink.write(prefix)
        for w, v in writers_and_values:
            w(sink, v)
        sink.write(suffix)
        return sink.observed_bytes(), sink.observed_events(), sink.observed_calls()
    if kind == "spy_bytesio":
        spy = SpyBytesIO()
        spy.write(prefix)
        for w, v in writers_and_values:
            w(spy, v)
        spy.write(suffix)
        return spy.observed_bytes(), list(spy.spy_events), -1
    if kind == "socket_file":
        a, b = socket.socketpair()
        chunks: list = []
        t = threading.Thread(target=_drain, args=(b, chunks, False))
        t.start()
        try:
            f = a.makefile("wb")
            try:
                f.write(prefix)
                for w, v in writers_and_values:
                    w(f, v)
                f.write(suffix)
                f.flush()
            finally:
                f.close()
                a.shutdown(socket.SHUT_WR)
        finally:
            t.join(30)
            a.close()
            b.close()
        return b"".join(chunks), [], -1
    if kind == "pipe_file":
        r, wfd = os.pipe()
        chunks = []
        t = threading.Thread(target=_drain, args=(r, chunks, True))
        t.start()
        try:
            f = os.fdopen(wfd, "wb")
            try:
                f.write(prefix)
                for w, v in writers_and_values:
                    w(f, v)
                f.write(suffix)
            finally:
                f.close()
        finally:
            t.join(30)
            os.close(r)
        return b"".join(chunks), [], -1
    if kind == "asyncio_stream_writer":
        async def go() -> bytes:
            a, b = socket.socketpair()
            reader_b, writer_b = await asyncio.open_unix_connection(sock=b)
            _, writer_a = await asyncio.open_unix_connection(sock=a)
            got = bytearray()

            async def pump() -> None:
                while True:
                    data = await reader_b.read(65536)
                    if not data:
                        return
                    got.extend(data)

            task = asyncio.ensure_future(pump())
            try:
                writer_a.write(prefix)
                for w, v in writers_and_values:
                    w(writer_a, v)  # kio writers are synchronous and only call .write()
                    await writer_a.drain()
                writer_a.write(suffix)
                await writer_a.drain()
            finally:
                writer_a.close()
                await writer_a.wait_closed()
            await asyncio.wait_for(task, 30)
            writer_b.close()
            await writer_b.wait_closed()
            return bytes(got)

        return loop.run_until_complete(go()), [], -1
    raise AssertionError(kind)


def _read_all(kind: str, readers: list, data: bytes, skip: int, lengths: list[int]):  # noqa: ANN202
    """Read `skip` garbage bytes then every message with the given readers from one source of the kind.
    Returns (values, positions after each message or None, events)."""
    values = []
    positions: list | None = []
    events: list = []
    if kind == "bytesio":
        # a plain, unsubclassed io.BytesIO (code may single it out with `type(buffer) is io.BytesIO`): what is called on it is observed
        # through the interpreter's profile hook (C-level method calls on this very object)
        src = io.BytesIO(data)
        src.read(skip)
        with _CCalls(src, allowed=("read",)) as spy:
            for r in readers:
                values.append(r(src))
                spy.pause()
                positions.append(src.tell())
                spy.resume()
        return values, positions, [("c-call", name) for name in spy.foreign]
    if kind == "read_only":
        src = ReadOnlySource(data)
        src.read(skip)
        for r in readers:
            values.append(r(src))
            positions.append(src.observed_position())
        return values, positions, src.observed_events()
    if kind == "spy_bytesio":
        spy = SpyBytesIO(data)
        spy.read(skip)
        for r in readers:
            values.append(r(spy))
            positions.append(spy.observed_position())
        return values, positions, list(spy.spy_events)
    if kind == "socket_buffered_reader":
        a, b = socket.socketpair()

        def feed() -> None:
            try:
                a.sendall(data)
            except OSError:
                pass
            finally:
                try:
                    a.shutdown(socket.SHUT_WR)
                except OSError:
                    pass

        t = threading.Thread(target=feed)
        t.start()
        try:
            f = b.makefile("rb")
            try:
                got_skip = f.read(skip)
                assert len(got_skip) == skip
                for r in readers:
                    values.append(r(f))
                rest = f.read()
            finally:
                f.close()
        finally:
            b.close()
            t.join(30)
            a.close()
        return values, None, [("rest", len(rest))]
    if kind == "disk_file_rb":
        # a regular, seekable file on disk (BufferedReader over FileIO)
        import tempfile

        with tempfile.TemporaryDirectory(prefix="kv-c07-") as d:
            path = os.path.join(d, "stream.bin")
            with open(path, "wb") as f:
                f.write(data)
            with open(path, "rb") as f:
                f.read(skip)
                for r in readers:
                    values.append(r(f))
                    positions.append(f.tell())
        return values, positions, events
    if kind == "pipe_buffered_reader":
        rfd, wfd = os.pipe()

        def feed() -> None:
            try:
                with os.fdopen(wfd, "wb") as wf:
                    wf.write(data)
            except OSError:
                pass

        t = threading.Thread(target=feed)
        t.start()
        try:
            with os.fdopen(rfd, "rb") as f:
                f.read(skip)
                for r in readers:
                    values.append(r(f))
                rest = f.read()
        finally:
            t.join(30)
        return values, None, [("rest", len(rest))]
    raise AssertionError(kind)


def c07_worker(res: Result, i: int, n: int) -> None:
    from kio.serial import entity_reader, entity_writer

    payloads = _payload_classes()
    total = 3200 if res.tier == "quick" else 256000
    mine = range(i, total, n)
    loop = asyncio.new_event_loop()
    pairs_seen: set[tuple[str, str]] = set()
    distinct: set[bytes] = set()
    try:
        for h in mine:
            _history(res, h, payloads, loop, pairs_seen, distinct)
    finally:
        loop.close()
    res.coverage["distinct_class_kind_pairs"] = len(pairs_seen)
    res.coverage["distinct_streams"] = len(distinct)


def _type_shape(v: object) -> object:
    """The exact types of a decoded value, recursively (dataclass fields, tuple items)."""
    import dataclasses as _dc

    if _dc.is_dataclass(v) and not isinstance(v, type):
        return (type(v).__qualname__, tuple((f.name, _type_shape(getattr(v, f.name))) for f in _dc.fields(v)))
    if isinstance(v, (tuple, list)):
        return (type(v).__name__, tuple(_type_shape(x) for x in v))
    return type(v).__module__ + "." + type(v).__qualname__


def _first_shape_diff(a: object, b: object, path: str = "") -> str:
    if a == b:
        return ""
    if isinstance(a, tuple) and isinstance(b, tuple) and len(a) == 2 and len(b) == 2 and a[0] == b[0] and isinstance(a[1], tuple) and isinstance(b[1], tuple) and len(a[1]) == len(b[1]):
        for k, (x, y) in enumerate(zip(a[1], b[1])):
            if x != y:
                if isinstance(x, tuple) and len(x) == 2 and isinstance(x[0], str) and isinstance(y, tuple) and x[0] == y[0] and not isinstance(x[1], str):
                    return _first_shape_diff(x[1], y[1], f"{path}.{x[0]}")
                if isinstance(x, tuple) and len(x) == 2 and isinstance(x[0], str) and isinstance(y, tuple) and x[0] == y[0]:
                    return f"{path}.{x[0]}: {x[1]} vs {y[1]}"
                return _first_shape_diff(x, y, f"{path}[{k}]")
    return f"{path or '<value>'}: {a if isinstance(a, str) else a[0]} vs {b if isinstance(b, str) else b[0]}"


def _history(res: Result, h: int, payloads: list, loop, pairs_seen: set, distinct: set) -> None:  # noqa: ANN001
    from kio.serial import entity_reader, entity_writer

    if True:
        if True:
            rng = common.rng_for("C07", h)
            g = gen.Gen(rng, "canonical", big_prob=0.002)
            nmsg = rng.randint(1, 12)
            msgs = []  # (cls, spec, tree, instance)
            for _ in range(nmsg):
                pcls = rng.choice(payloads)
                hcls = pcls.__header_schema__
                for cls in (hcls, pcls):
                    spec = describe.spec_from_class(cls)
                    tree = g.struct(spec)
                    msgs.append((cls, spec, tree, describe.tree_to_instance(spec, tree)))
            if h % 6 == 0:
                # one message in the middle of the stream carries a payload beyond typical chunking thresholds (64 KiB; in the thorough
                # tier sometimes 1 MiB): whatever reads or writes it in pieces must not touch its neighbours
                big = [c for c in payloads if any(fs.kind == "prim" and fs.ktype in ("bytes", "records") and not fs.array for fs in describe.spec_from_class(c).fields)]
                if big:
                    pcls = rng.choice(big)
                    spec = describe.spec_from_class(pcls)
                    label = "len1048577" if res.tier == "thorough" and h % 60 == 0 else "len65537"
                    tree = g.huge_payload_trees(spec, label)[0]
                    at = rng.randrange(0, len(msgs) + 1, 2)  # keep (header, payload) pairs together
                    hspec = describe.spec_from_class(pcls.__header_schema__)
                    htree = g.struct(hspec)
                    msgs[at:at] = [(pcls.__header_schema__, hspec, htree, describe.tree_to_instance(hspec, htree)), (pcls, spec, tree, describe.tree_to_instance(spec, tree))]
                    res.count("histories_with_a_huge_payload")
            prefix = rng.randbytes(rng.choice((0, 0, 1, 5, 33)))
            suffix = rng.randbytes(rng.choice((0, 0, 1, 9, 64)))
            ref_parts = [refcodec.encode_bytes(spec, tree) for _, spec, tree, _ in msgs]
            expected = prefix + b"".join(ref_parts) + suffix
            wv = [(entity_writer(cls), inst) for cls, _, _, inst in msgs]
            readers = [entity_reader(cls) for cls, _, _, _ in msgs]
            res.count("histories")
            res.count("messages", len(msgs))
            case = {"history": h, "messages": [walk.class_path(c) for c, _, _, _ in msgs], "trees": [t for _, _, t, _ in msgs],
                    "prefix": prefix, "suffix": suffix}
            # ---- writing to every sink kind
            sink_kinds = SINK_KINDS if (h % 4 == 0 or res.tier == "thorough") else SINK_KINDS[:3] + (SINK_KINDS[3 + h % (len(SINK_KINDS) - 3)],)
            outputs = {}
            for kind in sink_kinds:
                if rng.random() < 0.3:
                    # history noise: an earlier message on another connection is cut off by a sink error at a random write call
                    res.count("failed_write_noise")
                    w0, v0 = rng.choice(wv)
                    try:
                        w0(WriteOnlySink(fail_at=rng.randrange(12), fail_exc=ConnectionResetError("injected")), v0)
                    except Exception:  # noqa: BLE001
                        pass
                try:
                    got, events, calls = _write_all(kind, wv, prefix, suffix, loop)
                except Exception as exc:  # noqa: BLE001
                    res.violation(f"sink-raises:{kind}:{type(exc).__name__}",
                                  f"writing a history of {len(msgs)} entities to a {kind} sink raised {exc!r}",
                                  dict(case, sink=kind, error=traceback.format_exc()))
                    continue
                outputs[kind] = got
                res.count(f"sink:{kind}")
                if calls >= 0:
                    res.count("write_calls_observed", calls)
                if events:
                    res.violation(f"sink-foreign-access:{events[0]}",
                                  f"encoder touched the sink through something other than write(bytes): {events[:5]}",
                                  dict(case, sink=kind, events=events))
                if got != expected:
                    at = refcodec.first_diff(got, expected)
                    res.violation(f"sink-bytes:{kind}",
                                  f"bytes that arrived through the {kind} sink differ from the back-to-back reference encodings at byte {at} "
                                  f"(got {len(got)} bytes, expected {len(expected)})",
                                  dict(case, sink=kind, got=got, expected=expected))
                for cls, _, _, _ in msgs:
                    pairs_seen.add((cls.__name__, "sink:" + kind))
            # ---- reading back from every source kind
            source_kinds = SOURCE_KINDS if (h % 4 == 0 or res.tier == "thorough") else SOURCE_KINDS[:3] + (SOURCE_KINDS[3 + h % (len(SOURCE_KINDS) - 3)],)
            want_positions = []
            pos = len(prefix)
            for part in ref_parts:
                pos += len(part)
                want_positions.append(pos)
            baseline_shapes = None
            for kind in source_kinds:
                if rng.random() < 0.3:
                    # history noise: an earlier connection delivered only part of a message
                    res.count("failed_read_noise")
                    k0 = rng.randrange(len(readers))
                    part = ref_parts[k0]
                    try:
                        readers[k0](io.BytesIO(part[: rng.randrange(len(part))] if part else b""))
                    except Exception:  # noqa: BLE001
                        pass
                try:
                    values, positions, events = _read_all(kind, readers, expected, len(prefix), [len(p) for p in ref_parts])
                except Exception as exc:  # noqa: BLE001
                    res.violation(f"source-raises:{kind}:{type(exc).__name__}",
                                  f"reading a history of {len(msgs)} entities back from a {kind} source raised {exc!r}",
                                  dict(case, source=kind, stream=expected, error=traceback.format_exc()))
                    continue
                res.count(f"source:{kind}")
                originals = [inst for _, _, _, inst in msgs]
                if values != originals:
                    k = next((j for j, (a, b) in enumerate(zip(values, originals)) if a != b), -1)
                    res.violation(f"source-values:{kind}",
                                  f"{kind} source: message #{k} ({walk.class_path(msgs[k][0])}) decoded to a different value",
                                  dict(case, source=kind, stream=expected, index=k, decoded=repr(values[k])[:1500]))
                # "the values returned do not depend on the kind of source": not only ==, which calls a bytearray equal to bytes - the same
                # types, all the way down, as the same messages read from the first source kind
                shape = [_type_shape(v) for v in values]
                if baseline_shapes is None:
                    baseline_shapes = (kind, shape)
                elif shape != baseline_shapes[1]:
                    k = next((j for j, (a, b) in enumerate(zip(shape, baseline_shapes[1])) if a != b), -1)
                    res.violation(f"source-value-types:{kind}",
                                  f"{kind} source: message #{k} ({walk.class_path(msgs[k][0])}) decoded to values of other types than from the {baseline_shapes[0]} source: "
                                  f"{_first_shape_diff(shape[k], baseline_shapes[1][k])}",
                                  dict(case, source=kind, stream=expected, index=k))
                if positions is not None and positions != want_positions:
                    res.violation(f"source-position:{kind}",
                                  f"{kind} source: positions after each message {positions[:6]}.. differ from the encodings' boundaries {want_positions[:6]}..",
                                  dict(case, source=kind, stream=expected, positions=positions, expected_positions=want_positions))
                if kind in ("read_only", "spy_bytesio", "bytesio") and events:
                    res.violation(f"source-foreign-access:{events[0]}",
                                  f"decoder touched the source through something other than read(n>=0): {events[:5]}",
                                  dict(case, source=kind, events=events))
                if positions is None and events and events[0][1] != len(suffix):
                    res.violation(f"source-leftover:{kind}",
                                  f"{kind} source: {events[0][1]} bytes were left after the last message, expected the {len(suffix)} trailing bytes",
                                  dict(case, source=kind, stream=expected))
                for cls, _, _, _ in msgs:
                    pairs_seen.add((cls.__name__, "source:" + kind))
            distinct.add(hashlib.sha256(expected).digest()[:12])
            if h % 401 == 0:
                res.sample({"history": h, "messages": case["messages"], "stream_bytes": len(expected), "prefix": len(prefix), "suffix": len(suffix),
                            "sinks": list(outputs), "sources": list(source_kinds)})


def run(prop: str, tier_: str) -> int:
    res = Result("C07", "exploration", tier_)
    errs = refcodec.self_test()
    if errs:
        res.inconclusive_because("reference codec self-test failed: " + "; ".join(errs[:3]))
    shard.run(res, "kv.checks.stream:c07_worker", timeout=900 if tier_ == "quick" else 5400)
    c = res.counters
    floor_ok = c.get("histories", 0) > 100 and all(c.get(f"sink:{k}", 0) > 0 for k in SINK_KINDS) and all(
        c.get(f"source:{k}", 0) > 0 for k in SOURCE_KINDS) and c.get("write_calls_observed", 0) > 0
    res.assumptions.append("real-OS sinks/sources are CPython's socket.makefile / os.fdopen / asyncio.StreamWriter over a UNIX socketpair")
    return res.finish(
        c.get("histories", 0), int(res.coverage.get("distinct_streams", 0)),
        "histories of 1-12 (header, payload) messages of random request/response classes with random leading/trailing bytes, "
        "written back-to-back through each sink kind (BytesIO, write-only instrumented sink, socket file, pipe file, real "
        "asyncio.StreamWriter) and read back through each source kind (BytesIO, read-only instrumented source, BufferedReader "
        "over socket and pipe); bytes compared with the reference encodings, values with the originals, positions with the "
        "encodings' boundaries; distinct = distinct byte streams",
        floor_ok,
    )


def replay(prop: str, path: str) -> int:
    doc = common.load_replay(path)
    os.environ["VERIF_SEED"] = str(doc.get("seed", 0))
    res = Result("C07", "exploration", doc.get("tier", "quick"))
    h = doc["case"]["history"]
    print(f"replay C07: history {h} with seed {doc.get('seed')} ({doc['key']})")
    loop = asyncio.new_event_loop()
    try:
        # all sink and source kinds are exercised when replaying
        res.tier = "thorough"
        _history(res, h, _payload_classes(), loop, set(), set())
    finally:
        loop.close()
    return common.finish_replay(res)
