"""C04: the shipped schema package is exactly what the current generator derives from the pinned definitions."""
from __future__ import annotations

import json
import os
import pathlib
import tempfile

from .. import common, defs
from ..common import Result
from .structure import load_api_table


def _compare_trees(res: Result, gen_root: pathlib.Path, shipped_root: pathlib.Path, label: str) -> None:
    gen_files = defs.py_files(gen_root)
    ship_files = defs.py_files(shipped_root)
    for rel in sorted(set(gen_files) - set(ship_files)):
        res.violation(f"missing-module:{rel}", f"the generator emits {rel} from the pinned definitions but the shipped package has no such file", {"file": rel, "run": label})
    for rel in sorted(set(ship_files) - set(gen_files)):
        res.violation(f"extra-module:{rel}", f"the shipped package contains {rel}, which the generator does not emit from the pinned definitions", {"file": rel, "run": label})
    for rel in sorted(set(gen_files) & set(ship_files)):
        g, s = gen_files[rel], ship_files[rel]
        res.count("files_compared")
        name = os.path.basename(rel)
        try:
            if rel in ("index.py", "errors.py"):
                if defs.module_dump(g) != defs.module_dump(s):
                    res.violation(f"module-differs:{rel}", f"shipped {rel} differs from what the generator derives", {"file": rel, "run": label})
                res.count("whole_modules_compared")
            elif name == "__init__.py":
                if defs.init_exports(g) != defs.init_exports(s):
                    res.violation(f"exports-differ:{rel}", f"shipped {rel} exports differ from the generated ones: {defs.init_exports(s)} vs {defs.init_exports(g)}", {"file": rel, "run": label})
                res.count("init_modules_compared")
            else:
                gd, sd = defs.class_dumps(g), defs.class_dumps(s)
                for cname in sorted(set(gd) | set(sd)):
                    res.count("class_bodies_compared")
                    if gd.get(cname) != sd.get(cname):
                        what = "missing from the shipped module" if cname not in sd else "not emitted by the generator" if cname not in gd else "differs"
                        res.violation(f"class-differs:{rel}:{cname}", f"{rel}: class/definition {cname} {what} (normalised AST comparison)",
                                      {"file": rel, "class": cname, "run": label, "generated": (gd.get(cname) or "")[:3000], "shipped": (sd.get(cname) or "")[:3000]})
        except SyntaxError as exc:
            res.violation(f"syntax:{rel}", f"{rel} does not parse: {exc}", {"file": rel, "run": label})


def _compare_dumps(res: Result, gen_dump: dict, ship_dump: dict) -> None:
    gm, sm = gen_dump["modules"], ship_dump["modules"]
    for name in sorted(set(gm) | set(sm)):
        if name not in sm or name not in gm:
            res.violation(f"live-module:{name}", f"{name} is {'not importable from the shipped package' if name not in sm else 'not produced by the generator'}", {"module": name})
            continue
        g, s = gm[name], sm[name]
        if "IMPORT-ERROR" in s or "IMPORT-ERROR" in g:
            res.violation(f"import-error:{name}", f"{name} fails to import: shipped={s.get('IMPORT-ERROR')} generated={g.get('IMPORT-ERROR')}", {"module": name})
            continue
        res.count("live_modules_compared")
        for cname in sorted(set(g["classes"]) | set(s["classes"])):
            gc, sc = g["classes"].get(cname), s["classes"].get(cname)
            res.count("live_classes_compared")
            if gc is None or sc is None:
                res.violation(f"live-class:{name}:{cname}", f"{name}:{cname} exists only in the {'generated' if sc is None else 'shipped'} package", {"module": name, "class": cname})
                continue
            gc2, sc2 = dict(gc), dict(sc)
            gc2.pop("order"), sc2.pop("order")
            if gc2 != sc2:
                diff = [k for k in gc2 if gc2[k] != sc2[k]]
                detail = ""
                if "fields" in diff:
                    gf = {f["name"]: f for f in gc["fields"]}
                    sf = {f["name"]: f for f in sc["fields"]}
                    if list(gf) != list(sf):
                        detail = f"field names/order: shipped {list(sf)} vs generated {list(gf)}"
                    else:
                        for fn in gf:
                            if gf[fn] != sf[fn]:
                                detail = f"field {fn}: shipped {sf[fn]} vs generated {gf[fn]}"
                                break
                else:
                    detail = f"shipped {[sc2[k] for k in diff]} vs generated {[gc2[k] for k in diff]}"
                res.violation(f"live-class-differs:{name}:{cname}:{diff[0]}", f"{name}:{cname}: live class differs from the generated one in {diff}: {detail}",
                              {"module": name, "class": cname, "shipped": sc, "generated": gc})
            res.count("live_fields_compared", len(sc["fields"]))
        if g.get("doc") != s.get("doc"):
            res.violation(f"live-doc:{name}", f"{name}: module docstring (source definition) differs", {"module": name, "shipped": s.get("doc"), "generated": g.get("doc")})
    for key in ("errors", "index", "types"):
        res.count("live_tables_compared")
        if gen_dump[key] != ship_dump[key]:
            res.violation(f"live-table:{key}", f"live kio.schema.{key} differs between the shipped and the generated package", {"table": key})


def _api_table_from_dump(dump: dict) -> dict:
    fam: dict[str, dict] = {}
    for name, m in dump["modules"].items():
        parts = name.split(".")
        if len(parts) != 5 or "classes" not in m:
            continue
        api, ver, typ = parts[2], int(parts[3][1:]), parts[4]
        top = next((c for c in m["classes"].values() if c["classvars"].get("__type__") == typ), None)
        if top is None:
            continue
        e = fam.setdefault(f"{api}:{typ}", {"versions": [], "flex": [], "keys": set()})
        e["versions"].append(ver)
        if top["classvars"].get("__flexible__") == "True":
            e["flex"].append(ver)
        if "__api_key__" in top["classvars"]:
            e["keys"].add(int(top["classvars"]["__api_key__"]))
    out = {}
    for k, e in fam.items():
        out[k] = {"min": min(e["versions"]), "max": max(e["versions"]), "first_flexible": min(e["flex"]) if e["flex"] else None,
                  "api_key": sorted(e["keys"])[0] if len(e["keys"]) == 1 else (None if not e["keys"] else sorted(e["keys"]))}
    return out


def _interpretation(res: Result, definitions: dict) -> None:
    """Independent pin: kv/interpret.py reads every pinned definition for every version and the *live* shipped classes must match
    (names, order, types, nullability, tags, defaults by value, flexibility, key, header).  Catches an edit that changes the
    generator and the shipped package consistently."""
    import importlib

    from .. import describe, interpret

    for fname, d in definitions.items():
        for v in interpret.versions_of(d):
            res.count("interpreted_versions")
            try:
                m = interpret.interpret(d, v)
                mod = importlib.import_module(m.module)
            except Exception as exc:  # noqa: BLE001
                res.violation(f"interpretation:{fname}:v{v}", f"pinned {fname} v{v}: {exc!r}", {"definition": fname, "version": v})
                continue
            live = {k: c for k, c in vars(mod).items() if isinstance(c, type) and c.__module__ == m.module and hasattr(c, "__dataclass_fields__")}
            if set(live) != set(m.classes):
                res.violation(f"interpretation-classes:{m.module}", f"{m.module}: classes {sorted(live)} != structures of pinned {fname} v{v} {sorted(m.classes)}", {"module": m.module})
                continue
            for cname, exp in m.classes.items():
                cls = live[cname]
                res.count("interpreted_classes")
                problems = [msg for _, msg in interpret.compare_spec(exp, describe.spec_from_class(cls), f"{m.module}:{cname}")]
                if bool(cls.__flexible__) != m.flexible or int(cls.__version__) != v:
                    problems.append(f"version/flexible {int(cls.__version__)}/{cls.__flexible__} != {v}/{m.flexible}")
                if cls.__type__.name != (m.type if cname == m.top else "nested"):
                    problems.append(f"__type__ {cls.__type__.name}")
                if m.api_key is not None:
                    if int(getattr(cls, "__api_key__", -1)) != m.api_key:
                        problems.append(f"__api_key__ {getattr(cls, '__api_key__', None)} != {m.api_key}")
                    hs = getattr(cls, "__header_schema__", None)
                    if hs is None or f"{hs.__module__}:{hs.__qualname__}" != m.header:
                        problems.append(f"__header_schema__ {hs} != {m.header}")
                for path, tname in m.custom_types.items():
                    cn, fn = path.split(".")
                    if cn == cname and describe.spec_from_class(cls).field(fn).pytype.__name__ != tname:
                        problems.append(f"{fn}: entity type is not {tname}")
                if problems:
                    res.violation(f"interpretation-differs:{m.module}:{cname}", f"{m.module}:{cname} differs from an independent reading of pinned {fname}: {problems[:3]}",
                                  {"module": m.module, "class": cname, "problems": problems})


def run(prop: str, tier_: str) -> int:
    res = Result("C04", "translation_validation", tier_)
    definitions = defs.pinned_definitions()
    _interpretation(res, definitions)
    res.coverage["programs"] = len(definitions)
    shipped_root = common.REPO_SRC / "kio" / "schema"
    runs = [None] if tier_ == "quick" else [None, 1 + common.seed(), 2 + common.seed(), 3 + common.seed()]
    tmpdir = tempfile.mkdtemp(prefix="kv-c04-")
    try:
        ship_json = os.path.join(tmpdir, "shipped.json")
        p = defs.dump_package(str(common.REPO_SRC), ship_json)
        if p.returncode != 0:
            res.violation("shipped-not-importable", f"dumping the shipped package failed: {p.stderr[-1500:]}", {"stderr": p.stderr[-3000:]})
            ship_dump = None
        else:
            ship_dump = json.load(open(ship_json))
        for shuffle in runs:
            label = "glob order as found" if shuffle is None else f"definition files shuffled with seed {shuffle}"
            with defs.Scratch(definitions) as sc:
                g = sc.generate(shuffle_seed=shuffle)
                res.count("generator_runs")
                if g.returncode != 0:
                    res.violation("generator-fails", f"the generator fails on the pinned definitions ({label}): {g.stderr[-1200:]}", {"stderr": g.stderr[-4000:], "run": label})
                    continue
                _compare_trees(res, sc.schema_dir, shipped_root, label)
                if ship_dump is not None and shuffle is None:
                    gen_json = os.path.join(tmpdir, "generated.json")
                    p = defs.dump_package(str(sc.root / "src"), gen_json)
                    if p.returncode != 0:
                        res.violation("generated-not-importable", f"the freshly generated package cannot be imported: {p.stderr[-1500:]}", {"stderr": p.stderr[-3000:]})
                    else:
                        _compare_dumps(res, json.load(open(gen_json)), ship_dump)
        if ship_dump is not None:
            table = load_api_table()
            got = _api_table_from_dump(ship_dump)
            if table is None:
                res.inconclusive_because("pins/api_table.json missing")
            else:
                res.count("api_table_families", len(got))
                pin = {k: {kk: v.get(kk) for kk in ("min", "max", "first_flexible", "api_key")} for k, v in table.items()}
                for k in sorted(set(pin) | set(got)):
                    if pin.get(k) != got.get(k):
                        res.violation(f"api-table:{k}", f"{k}: shipped package says {got.get(k)}, pinned 3.9.0 API table says {pin.get(k)}", {"family": k})
            # the shipped error codes against the pinned table itself (not only against what the generator makes of it: a generator slip
            # plus a regenerated errors.py agree with each other)
            pinned = {}
            for ln in (common.VERIF / "pins" / "error-codes.txt").read_text().splitlines():
                parts = ln.split(None, 3)
                if len(parts) >= 3:
                    pinned[int(parts[0])] = (parts[1].lower(), parts[2] == "True")
            live = {int(code): (str(name).lower(), bool(retriable)) for name, code, retriable, _ in ship_dump["errors"]}
            res.count("error_codes_compared_with_pin", len(pinned))
            for code in sorted(set(pinned) | set(live)):
                if pinned.get(code) != live.get(code):
                    res.violation(f"error-code-table:{code}", f"error code {code}: shipped ErrorCode has {live.get(code)}, the pinned Kafka 3.9.0 table says {pinned.get(code)}", {"code": code})
            nmods = sum(1 for n in ship_dump["modules"] if n.count(".") == 4)
            ncls = sum(len(m.get("classes", {})) for m in ship_dump["modules"].values())
            res.coverage["shipped_modules"] = nmods
            res.coverage["shipped_classes"] = ncls
            res.coverage["error_codes"] = len(ship_dump["errors"])
            for mname in ("kio.schema.fetch.v15.request", "kio.schema.api_versions.v3.response"):
                m = ship_dump["modules"].get(mname, {}).get("classes", {})
                for cname, c in list(m.items())[:1]:
                    res.sample({"module": mname, "class": cname, "classvars": c["classvars"], "fields": c["fields"][:3]})
    finally:
        import shutil

        shutil.rmtree(tmpdir, ignore_errors=True)
    c = res.counters
    res.coverage["disagreements_checked"] = c.get("class_bodies_compared", 0) + c.get("live_classes_compared", 0) + c.get("whole_modules_compared", 0) + \
        c.get("init_modules_compared", 0) + c.get("live_tables_compared", 0) + c.get("api_table_families", 0) + c.get("interpreted_classes", 0)
    res.coverage["exhaustive"] = True
    res.assumptions += ["pins/kafka-3.9.0 was reconstructed from the schema package at the baseline commit (no upstream copy exists offline): a pre-existing divergence "
                        "from upstream is invisible here", "comparison is per class body (normalised AST) and per live class object, because import lines depend on the "
                        "formatter the project runs after generation"]
    floor_ok = c.get("interpreted_classes", 0) >= 1600 and c.get("class_bodies_compared", 0) >= 1600 and c.get("live_classes_compared", 0) >= 1600 and res.coverage.get("shipped_modules", 0) >= 600
    return res.finish(res.coverage["disagreements_checked"], res.coverage.get("shipped_classes", 0),
                      "all 186 pinned definitions x all versions pushed through the real generator in a scratch copy of the current codegen/ (fresh subprocess), "
                      "output compared with the shipped package: file sets, normalised AST of every class body, whole errors.py/index.py, __init__ exports, and the "
                      "live class objects of both packages imported in separate interpreters (fields, annotations, metadata, defaults, class vars, dataclass options); "
                      "plus the independent API table; thorough re-runs the generator with shuffled definition order; distinct = shipped classes compared",
                      floor_ok)


def replay(prop: str, path: str) -> int:
    return common.replay_by_rerun(prop, path, run)
