"""C17 (write_new_batch emits the v2 batch format) and C18 (read_batch is faithful and rejects damage)."""
from __future__ import annotations

import datetime
import hashlib
import io
import random
import traceback

from .. import common, gen, recref, shard
from ..common import Result
from ..describe import EPOCH, MS

D4 = "D4-record-timestamps-floored-to-seconds-on-read"
D16 = "D16-truncated-batch-with-colliding-crc-accepted"
D17 = "D17-record-timestamps-outside-the-datetime-model"
D21 = "D21-max-timestamp-check-compares-seconds-with-milliseconds"
D18 = "D18-null-record-header-key-written-as-length-minus-one"
BATCH_FIELDS = ("base_offset", "partition_leader_epoch", "attributes", "last_offset_delta", "base_timestamp", "max_timestamp",
                "producer_id", "producer_epoch", "base_sequence")


# ---------------------------------------------------------------------------------------
# generator of batches (neutral model)


def _blob(rng, thorough: bool) -> tuple[bytes | None, str]:  # noqa: ANN001
    kinds = ["none", "empty", "one", "63", "64", "small", "small", "8191", "8192"] + (["1MiB"] if thorough and rng.random() < 0.0005 else [])
    k = rng.choice(kinds)
    if k == "none":
        return None, k
    n = {"empty": 0, "one": 1, "63": 63, "64": 64, "small": rng.randint(2, 40), "8191": 8191, "8192": 8192, "1MiB": 1 << 20}[k]
    return rng.randbytes(n), k


def gen_batch(rng, thorough: bool, max_records: int, null_header_keys: bool = False) -> tuple[dict, dict]:  # noqa: ANN001
    """Returns (neutral well-formed batch with absolute offsets/timestamps in '_abs', cell description)."""
    n = rng.choice((1, 1, 2, 3, 5, 8, 20, rng.randint(1, max_records)))
    order = rng.choice(("ascending", "gaps", "descending", "arbitrary", "equal", "boundary"))
    base = rng.choice((0, 1, rng.randint(0, 2**40), 2**62, 2**63 - 1 - 2**31 if order != "descending" else 2**63 - 1, -(2**63) + 2**31 + 5, rng.randint(-(2**62), 2**62)))
    if order == "ascending":
        offs = [base + k for k in range(n)]
    elif order == "gaps":
        offs, cur = [], base
        for _ in range(n):
            offs.append(cur)
            cur += rng.randint(1, max(1, (2**31 - 2) // n))
    elif order == "descending":
        offs = [base - k * rng.randint(1, 1000) for k in range(n)]
    elif order == "equal":
        offs = [base] * n
    elif order == "boundary":
        # deltas at the byte-length boundaries of the zig-zag varint (and the int32 limits)
        edge = [s_ * (1 << p_) + d_ for p_ in (6, 13, 20, 27) for s_ in (1, -1) for d_ in (-1, 0, 1)] + [2**31 - 1, -(2**31), 0, 1, -1]
        base = rng.choice((0, 2**40, -(2**40)))
        offs = [base] + [base + rng.choice(edge) for _ in range(n - 1)]
    else:
        offs = [base] + [base + rng.randint(-(2**31), 2**31 - 1) for _ in range(n - 1)]
    offs = [min(max(o, -(2**63)), 2**63 - 1) for o in offs]
    offs = [o if -(2**31) <= o - offs[0] <= 2**31 - 1 else offs[0] for o in offs]
    tkind = rng.choice(("near_epoch", "modern", "year9999", "equal", "out_of_order", "whole_seconds", "boundary", "dst_fold"))
    if tkind == "near_epoch":
        ts = [rng.randint(0, 5000) for _ in range(n)]
    elif tkind == "modern":
        t0 = rng.randint(1_400_000_000_000, 1_900_000_000_000)
        ts = [t0 + rng.randint(0, 100000) for _ in range(n)]
    elif tkind == "year9999":
        ts = [gen.DT_MAX - rng.randint(0, 10**6) for _ in range(n)]
    elif tkind == "equal":
        ts = [rng.choice((0, 1, 999, 1001, 1503229838908, gen.DT_MAX))] * n
    elif tkind == "dst_fold":
        # instants around the end of daylight saving time 2021 in Europe (01:00 UTC) and the US (06:00 UTC): expressed in those zones the
        # wall-clock times repeat, which must not matter
        t0 = rng.choice((1635642000000, 1636264800000))
        ts = []
        while len(ts) < n:
            t = t0 + rng.randint(-3600_000, 3600_000)
            ts.append(t)
            if rng.random() < 0.5:
                ts.append(t + 3600_000 if t < t0 else t - 3600_000)  # the same wall-clock time in the other fold
        ts = ts[:n]
    elif tkind == "boundary":
        # timestamp deltas at the byte-length boundaries of the zig-zag varlong
        t0 = 1 << 45
        edge = [s_ * (1 << p_) + d_ for p_ in (6, 13, 20, 27, 34, 41) for s_ in (1, -1) for d_ in (-1, 0, 1)]
        ts = [t0] + [t0 + rng.choice(edge) for _ in range(n - 1)]
    elif tkind == "whole_seconds":
        ts = [1000 * rng.randint(0, gen.DT_MAX // 1000) for _ in range(n)]
    else:
        ts = [rng.randint(0, gen.DT_MAX) for _ in range(n)]
    records = []
    kv_kinds = set()
    null_header_keys = null_header_keys and rng.random() < 0.08
    for k in range(n):
        key, kk = _blob(rng, thorough)
        value, vk = _blob(rng, thorough)
        kv_kinds.add(f"k:{kk}")
        kv_kinds.add(f"v:{vk}")
        nh = rng.choice((0, 0, 0, 1, 2, 20 if rng.random() < 0.1 else 3))
        if rng.random() < 0.02:
            nh = rng.choice((63, 64, 127, 128))  # the zig-zag varint of the header count grows to two bytes at 64
        # a header key is a (non-null) string in the v2 format; kio's RecordHeader.key is typed bytes | None, so None is a possible *input* of
        # the writer (C17, D18) but never part of a well-formed batch (C18)
        headers = [(rng.choice((None if null_header_keys else "ключ".encode(), b"", b"hkey", rng.randbytes(rng.randint(1, 70)))), rng.choice((None, b"", b"hval", rng.randbytes(rng.randint(1, 70))))) for _ in range(nh)]
        records.append({"attributes": rng.randint(-128, 127), "timestamp_delta": ts[k] - ts[0], "offset_delta": offs[k] - offs[0],
                        "key": key, "value": value, "headers": headers})
    b = {
        "base_offset": offs[0], "partition_leader_epoch": rng.choice((0, -1, 1, 2**31 - 1, rng.randint(-(2**31), 2**31 - 1))),
        "attributes": rng.randint(-(2**15), 2**15 - 1) & ~0x7, "last_offset_delta": offs[-1] - offs[0], "base_timestamp": ts[0], "max_timestamp": max(ts),
        "producer_id": rng.choice((-1, 0, 2**63 - 1, rng.randint(-(2**63), 2**63 - 1))), "producer_epoch": rng.choice((-1, 0, 2**15 - 1, rng.randint(-(2**15), 2**15 - 1))),
        "base_sequence": rng.choice((-1, 0, 2**31 - 1, rng.randint(-(2**31), 2**31 - 1))), "records": records, "_abs": {"offsets": offs, "timestamps": ts},
    }
    if b["attributes"] >= 2**15:
        b["attributes"] -= 2**16
    cell = {"n": "1" if n == 1 else "2-5" if n <= 5 else "6-20" if n <= 20 else ">20", "order": order, "time": tkind, "kv": sorted(kv_kinds)}
    return b, cell


_ZONES: list | None = None


def tiny_records_batch(rng, n: int | None = None) -> tuple[dict, dict]:  # noqa: ANN001
    """Many records of the smallest possible encoding (7-9 bytes each: null/empty key and value, no headers, one-byte deltas): the record
    count is large compared with the batch length, which any plausibility bound on the count has to get right."""
    n = n or rng.choice((49, 50, 51, 64, 100, 127, 128, 300, 1000, 4000))
    base_off = rng.choice((0, 1, 2**40))
    t0 = rng.choice((0, 1000, 1_700_000_000_000))
    shape = rng.choice(("all-null", "all-empty", "mixed"))
    recs = []
    for k in range(n):
        key = None if shape == "all-null" else b"" if shape == "all-empty" else rng.choice((None, b"", b"k"))
        val = None if shape == "all-null" else b"" if shape == "all-empty" else rng.choice((None, b"", b"v"))
        recs.append({"attributes": 0, "timestamp_delta": 0 if shape != "mixed" else rng.choice((0, 0, 1, 63)), "offset_delta": k if k < 64 or shape == "mixed" else rng.choice((k, 63)),
                     "key": key, "value": val, "headers": []})
    recs[0]["timestamp_delta"] = recs[0]["offset_delta"] = 0  # the first record defines the base of a newly written batch
    offs = [base_off + r["offset_delta"] for r in recs]
    ts = [t0 + r["timestamp_delta"] for r in recs]
    b = {"base_offset": base_off, "partition_leader_epoch": 0, "attributes": 0, "last_offset_delta": recs[-1]["offset_delta"], "base_timestamp": t0,
         "max_timestamp": max(ts), "producer_id": -1, "producer_epoch": -1, "base_sequence": -1, "records": recs, "_abs": {"offsets": offs, "timestamps": ts}}
    return b, {"n": ">20", "order": "tiny-records", "time": "whole_seconds" if shape != "mixed" else "near_epoch", "kv": ["k:" + shape, "v:" + shape]}


def _zones() -> list:
    """Time zones a record timestamp may be expressed in (the instant is what goes on the wire)."""
    global _ZONES
    if _ZONES is None:
        _ZONES = [datetime.timezone.utc, datetime.timezone(datetime.timedelta(hours=5, minutes=30)), datetime.timezone(datetime.timedelta(hours=-11)),
                  datetime.timezone(datetime.timedelta(hours=1, milliseconds=500)), datetime.timezone(-datetime.timedelta(milliseconds=1)),
                  datetime.timezone(datetime.timedelta(minutes=-44, seconds=-30, microseconds=-250))]  # sub-second offsets (the last one sub-millisecond: records carry microseconds)
        try:
            import zoneinfo

            for z in ("Europe/Berlin", "America/New_York", "Australia/Lord_Howe"):
                try:
                    _ZONES.append(zoneinfo.ZoneInfo(z))
                except Exception:  # noqa: BLE001
                    pass
        except ImportError:
            pass
    return _ZONES


def to_kio_records(b: dict, tz_choice=None) -> tuple:  # noqa: ANN001
    from kio.records.schema import Record, RecordHeader

    out = []
    for k, (rec, off, ts) in enumerate(zip(b["records"], b["_abs"]["offsets"], b["_abs"]["timestamps"])):
        when = EPOCH + ts * MS
        if tz_choice is not None:
            try:
                when = when.astimezone(tz_choice(k))
            except OverflowError:
                pass
        out.append(Record(attributes=rec["attributes"], timestamp=when, offset=off, key=rec["key"], value=rec["value"],
                          headers=tuple(RecordHeader(key=k_, value=v) for k_, v in rec["headers"])))
    return tuple(out)


def _public(b: dict) -> dict:
    return {k: v for k, v in b.items() if k != "_abs"}


# ---------------------------------------------------------------------------------------
# C17


def c17_worker(res: Result, i: int, n: int) -> None:
    from kio.records.schema import NewRecordBatch
    from kio.records.writers import write_batch, write_new_batch

    total = 12000 if res.tier == "quick" else 1200000
    thorough = res.tier == "thorough"
    cells: set = set()
    distinct: set[bytes] = set()
    prev_out = b""
    for k in range(i, total, n):
        rng = common.rng_for("C17", k)
        b, cell = tiny_records_batch(rng) if k % 97 == 5 else gen_batch(rng, thorough, 60 if not thorough else 200, null_header_keys=True)
        if k % 1500 == 7:
            # a batch beyond 1 MiB: one large value or one large header value
            if k % 3000 == 7:
                b["records"][0]["value"] = rng.randbytes((1 << 20) + rng.choice((1, 4096, 1 << 20)))
            else:
                b["records"][-1]["headers"] = [*b["records"][-1]["headers"], (b"big", rng.randbytes((1 << 20) + 100))]
            res.count("batches_beyond_1MiB")
        null_key = any(hk is None for r in b["records"] for hk, _ in r["headers"])
        cells.add((cell["n"], cell["order"], cell["time"]))
        for kv in cell["kv"]:
            cells.add(("kv", kv))
        res.count("batches")
        res.count("records", len(b["records"]))
        if k % 4 == 1:
            _failed_write_noise(res, rng, b)
        try:
            zones = _zones()
            same_zone = rng.choice(zones)
            tz_choice = None if k % 3 == 0 else (lambda j, z=same_zone: z) if k % 3 == 1 else (lambda j, r=random.Random(k): r.choice(zones))
            new = NewRecordBatch(producer_id=b["producer_id"], producer_epoch=b["producer_epoch"], partition_leader_epoch=b["partition_leader_epoch"],
                                 base_sequence=b["base_sequence"], records=to_kio_records(b, tz_choice), attributes=b["attributes"])
            buf = io.BytesIO()
            # every fifth batch is appended to a buffer that already holds something (arbitrary bytes, or the previous batch of this
            # worker): what is written must not depend on where in the buffer it lands
            lead = b"" if k % 5 else (prev_out if prev_out and k % 2 else rng.randbytes(rng.choice((1, 12, 61, 300))))
            if lead:
                buf.write(lead)
                res.count("batches_appended_to_a_non_empty_buffer")
            (write_new_batch if k % 3 else write_batch)(buf, new)
            whole = buf.getvalue()
            if whole[:len(lead)] != lead or buf.tell() != len(whole):
                res.violation("write-disturbs-buffer", f"writing a batch changed the {len(lead)} bytes already in the buffer or left the position at {buf.tell()} of {len(whole)}",
                              {"batch": _public(b), "cell": cell, "lead": lead, "buffer": whole})
                continue
            got = whole[len(lead):]
            prev_out = got if len(got) < 4096 else prev_out
        except Exception as exc:  # noqa: BLE001
            if null_key and isinstance(exc, (TypeError, ValueError)):
                res.count("null_header_key_refused")  # the format has no encoding for it: refusing is right
                continue
            res.violation(f"write-raises:{type(exc).__name__}:{cell['order']}", f"write_new_batch raised {exc!r} on a representable batch ({cell})",
                          {"batch": _public(b), "cell": cell, "error": traceback.format_exc()})
            continue
        want = recref.encode_batch(b)
        if null_key and got == want:
            # D18: written with key length -1, which the format does not have (the strict reference decoder rejects it below)
            try:
                recref.decode_batch(got)
                res.violation("oracle", "the strict reference decoder accepted a null header key", {"kio": got})
            except recref.BadBatch:
                res.count("null_header_key_written_as_minus_one")
                res.known_or_violation(D18, "null-header-key-written", f"write_new_batch wrote a header key of length -1 for a None key; a conforming decoder rejects the batch ({cell})",
                                       {"batch": _public(b), "cell": cell, "kio": got})
            continue
        if got == want:
            res.count("bytes_equal")
            res.count("crcs_verified")
            distinct.add(hashlib.sha256(got).digest()[:12])
            if k % 1009 == 0:
                res.sample({"batch": _public(b) if len(got) < 400 else {"records": len(b["records"])}, "bytes": got, "cell": cell})
            continue
        # attribute the difference with the independent decoder
        why = "?"
        try:
            d, end = recref.decode_batch(got)
            if end != len(got):
                why = f"batch_length {d['batch_length']} does not cover the {len(got) - 12} bytes written after it"
            elif not d["crc_ok"]:
                why = "CRC-32C does not match the bytes from attributes to the end"
            else:
                diffs = [f for f in BATCH_FIELDS if d[f] != b[f]]
                if d["batch_length"] != len(got) - 12:
                    diffs.append("batch_length")
                if len(d["records"]) != len(b["records"]):
                    diffs.append("record_count")
                else:
                    for j, (x, y) in enumerate(zip(d["records"], b["records"])):
                        for f in y:
                            if x[f] != y[f]:
                                diffs.append(f"records[{j}].{f}")
                                break
                        if len(diffs) > 4:
                            break
                why = "fields differ: " + ", ".join(diffs[:6])
        except recref.BadBatch as exc:
            why = f"independent decoder cannot parse the output: {exc}"
        field = why.split(":")[-1].split(",")[0].strip().split("[")[0]
        res.violation(f"batch-differs:{field}", f"write_new_batch output is not the v2 batch format for its input ({why}); cell {cell}",
                      {"batch": _public(b), "cell": cell, "kio": got, "reference": want, "why": why})
    if i == 0:
        from kio.records.schema import NewRecordBatch as NB  # noqa: N817

        try:
            write_new_batch(io.BytesIO(), NB(producer_id=0, producer_epoch=0, base_sequence=0, records=(), attributes=0))
            res.count("empty_batch_accepted_note")
        except ValueError:
            res.count("empty_batch_rejected")
    res.coverage["distinct_cells"] = sorted("|".join(map(str, c)) for c in cells)
    res.coverage["distinct_batches"] = len(distinct)


class _FailingSink(io.BytesIO):
    """A real BytesIO (the batch writer uses tell()/getvalue() on its own scratch buffers, and may on the sink) whose k-th write raises."""

    def __init__(self, fail_at: int) -> None:
        super().__init__()
        self._left = fail_at

    def write(self, data):  # noqa: ANN001, ANN201
        if self._left <= 0:
            raise BrokenPipeError("injected")
        self._left -= 1
        return super().write(data)


def _failed_write_noise(res: Result, rng, b: dict) -> None:  # noqa: ANN001
    """History noise for C17: earlier batch writes in this process that fail part-way (sink error at a random write call, a record
    whose value is not bytes).  Their exceptions are not judged; the next batch must still be written correctly."""
    import dataclasses

    from kio.records.schema import NewRecordBatch
    from kio.records.writers import write_new_batch

    res.count("failed_write_noise")
    recs = to_kio_records(b)
    new = NewRecordBatch(producer_id=1, producer_epoch=1, base_sequence=0, records=recs, attributes=0)
    try:
        write_new_batch(_FailingSink(rng.randrange(6)), new)
    except Exception:  # noqa: BLE001
        pass
    try:
        j = rng.randrange(len(recs))
        poisoned = tuple(dataclasses.replace(r, value="not bytes") if i == j else r for i, r in enumerate(recs))  # type: ignore[arg-type]
        write_new_batch(io.BytesIO(), dataclasses.replace(new, records=poisoned))
    except Exception:  # noqa: BLE001
        pass


def run_c17(tier_: str) -> int:
    res = Result("C17", "exploration", tier_)
    errs = recref.self_test()
    if errs:
        res.inconclusive_because("reference batch codec self-test failed: " + "; ".join(errs[:3]))
    shard.run(res, "kv.checks.records:c17_worker", timeout=900 if tier_ == "quick" else 5400)
    c = res.counters
    res.coverage["distinct_cells_count"] = len(res.coverage.get("distinct_cells", []))
    res.assumptions += ["reference batch encoder/decoder and table-driven CRC-32C (RFC 3720 vectors, four real-broker batches self-tested each run)",
                        "compression bits of the batch attributes are 0 (kio has no codec); timestamps are whole milliseconds in [0, year 9999]"]
    return res.finish(c.get("batches", 0), int(res.coverage.get("distinct_batches", 0)),
                      "seeded NewRecordBatch inputs: 1-200 records, offsets ascending/gapped/descending/arbitrary/equal within int32 deltas incl. the "
                      "int64 edges, millisecond timestamps near the epoch / modern / year 9999 / equal / out of order, null/empty/63/64/8191/8192-byte "
                      "keys and values, 0-20 headers with null/empty parts, full-range attributes/producer/epoch/sequence; kio output compared "
                      "byte-for-byte with the reference encoder (differences attributed with the reference decoder + own CRC-32C); distinct = distinct outputs",
                      floor_ok=c.get("batches", 0) > 100 and res.coverage["distinct_cells_count"] >= 30)


# ---------------------------------------------------------------------------------------
# C18


def _floor_s(ms: int) -> int:
    return ms - ms % 1000


def _expected_records(b: dict, floor_seconds: bool) -> list[tuple]:
    out = []
    for rec in b["records"]:
        ts = b["base_timestamp"] + rec["timestamp_delta"]
        if floor_seconds:
            ts = _floor_s(ts)
        out.append((rec["attributes"], ts, b["base_offset"] + rec["offset_delta"], rec["key"], rec["value"], tuple(rec["headers"])))
    return out


def _got_records(batch) -> list[tuple] | str:  # noqa: ANN001
    out = []
    for r in batch.records:
        q, rem = divmod(r.timestamp - EPOCH, MS)
        if rem or r.timestamp.utcoffset() is None:
            return f"record timestamp {r.timestamp!r} is not a whole millisecond / not aware"
        out.append((r.attributes, q, r.offset, r.key, r.value, tuple((h.key, h.value) for h in r.headers)))
    return out


class _TailView(io.BytesIO):
    """A BytesIO whose getvalue() hides the first `skip` bytes (what was in the buffer before the batch was written)."""

    skip = 0

    def getvalue(self) -> bytes:
        return super().getvalue()[self.skip:]


def _identity(res: Result, raw: bytes, b: dict, label: str) -> bool:
    """read_batch returns what is encoded; write_batch(read_batch(raw)) == raw. D4-aware."""
    from kio.records.readers import read_batch
    from kio.records.writers import write_batch

    payload = {"batch": _public(b), "bytes": raw, "origin": label}
    src = io.BytesIO(raw + b"\x77\x66")
    try:
        got = read_batch(src)
    except Exception as exc:  # noqa: BLE001
        outside = [b["base_timestamp"] + r["timestamp_delta"] for r in b["records"] if not 0 <= b["base_timestamp"] + r["timestamp_delta"] <= gen.DT_MAX]
        if outside and isinstance(exc, (TypeError, ValueError, OverflowError)):
            # D17: the record model (an aware datetime at or after the epoch) has no value for this timestamp
            res.count("unrepresentable_timestamp_batches_rejected")
            res.known_or_violation(D17, f"read-raises:{type(exc).__name__}:unrepresentable-timestamp",
                                   f"read_batch raised {exc!r} on a well-formed batch with record timestamp {outside[0]} ms ({label})", dict(payload, error=traceback.format_exc()))
            return False
        above = [t for t in (b["base_timestamp"] + r["timestamp_delta"] for r in b["records"]) if t / 1000 > b["max_timestamp"]]
        if above and b["attributes"] & 0x08 and isinstance(exc, ValueError) and "max timestamp" in str(exc):
            # D21: the reader's sanity check compares a record's timestamp in *seconds* with max_timestamp in milliseconds
            res.count("log_append_time_batches_rejected_by_seconds_vs_ms_check")
            res.known_or_violation(D21, "read-raises:ValueError:seconds-vs-milliseconds",
                                   f"read_batch raised {exc!r} on a LogAppendTime batch with max_timestamp {b['max_timestamp']} ms and a record at {above[0]} ms ({label})",
                                   dict(payload, error=traceback.format_exc()))
            return False
        res.violation(f"read-raises:{type(exc).__name__}", f"read_batch raised {exc!r} on a well-formed batch ({label})", dict(payload, error=traceback.format_exc()))
        return False
    if src.tell() != len(raw):
        res.violation("read-position", f"read_batch left the stream at {src.tell()}, the batch ends at {len(raw)} ({label})", payload)
        return False
    hdr_bad = [f for f in BATCH_FIELDS if getattr(got, f) != b[f]]
    if got.batch_length != len(raw) - 12:
        hdr_bad.append("batch_length")
    if got.crc != int.from_bytes(raw[17:21], "big"):
        hdr_bad.append("crc")
    if hdr_bad:
        res.violation(f"read-header:{hdr_bad[0]}", f"read_batch returned wrong batch header fields {hdr_bad} ({label})", dict(payload, returned=repr(got)[:1500]))
        return False
    recs = _got_records(got)
    strict = _expected_records(b, False)
    trigger = any((b["base_timestamp"] + r["timestamp_delta"]) % 1000 for r in b["records"])
    buf = _TailView()
    lead = b"" if len(raw) % 2 else bytes([len(raw) % 251, 0x5A, 0xA5][: 1 + len(raw) % 3])  # half of the re-serialisations go into a buffer that already holds bytes
    buf.write(lead)
    buf.skip = len(lead)
    try:
        write_batch(buf, got)
    except Exception as exc:  # noqa: BLE001
        res.violation(f"rewrite-raises:{type(exc).__name__}", f"write_batch rejects what read_batch returned: {exc!r} ({label})", dict(payload, error=traceback.format_exc()))
        return False
    if io.BytesIO.getvalue(buf)[:len(lead)] != lead:
        res.violation("rewrite-disturbs-buffer", f"write_batch changed the {len(lead)} bytes that were already in the buffer ({label})", dict(payload, buffer=io.BytesIO.getvalue(buf)))
        return False
    if recs == strict and buf.getvalue() == raw:
        res.count("identity_strict_ok")
        return True
    if trigger and recs == _expected_records(b, True):
        adj = dict(b)
        adj["records"] = [dict(r, timestamp_delta=_floor_s(b["base_timestamp"] + r["timestamp_delta"]) - b["base_timestamp"]) for r in b["records"]]
        adj_bytes = recref.encode_batch(adj, crc=int.from_bytes(raw[17:21], "big"), batch_length=len(raw) - 12)
        if buf.getvalue() == adj_bytes:
            res.count("identity_explained_by_D4")
            res.known_or_violation(D4, "records-floored-to-seconds", f"read_batch floors record timestamps to whole seconds; records and re-encoding differ ({label})",
                                   dict(payload, returned=repr(got)[:1500], rewritten=buf.getvalue()))
            return True
    if recs != strict:
        j = next((k for k, (x, y) in enumerate(zip(recs, strict)) if x != y), -1) if isinstance(recs, list) else -1
        res.violation("read-records", f"read_batch returned different records than encoded (first difference at record {j}) ({label})",
                      dict(payload, returned=repr(got)[:2000], expected=strict[:5]))
    else:
        res.violation("rewrite-differs", f"write_batch(read_batch(b)) != b at byte {common_first_diff(buf.getvalue(), raw)} ({label})",
                      dict(payload, rewritten=buf.getvalue()))
    return False


def common_first_diff(a: bytes, b: bytes) -> int:
    n = min(len(a), len(b))
    return next((k for k in range(n) if a[k] != b[k]), n)


def _must_fail(res: Result, data: bytes, kind: str, detail: str, outcomes: dict, origin: dict) -> None:
    from kio.records.readers import read_batch

    res.count("damaged_variants")
    try:
        out = read_batch(io.BytesIO(data))
    except Exception as exc:  # noqa: BLE001
        name = type(exc).__name__
        outcomes[f"{kind}:{name}"] = outcomes.get(f"{kind}:{name}", 0) + 1
        return
    outcomes[f"{kind}:RETURNED"] = outcomes.get(f"{kind}:RETURNED", 0) + 1
    if kind.startswith("truncation") and len(data) >= 21 and recref.crc32c(data[21:]) == int.from_bytes(data[17:21], "big"):
        # D16: the bytes that survive the cut happen to have the recorded CRC-32C (only reachable with a crafted tail, see
        # _colliding_truncation): the reader never compares the number of bytes it got with batch_length
        res.count("truncations_with_colliding_crc_accepted")
        res.known_or_violation(D16, "damage-accepted:truncation:colliding-crc", f"read_batch returned a batch for a truncated input whose surviving bytes have the recorded CRC ({detail})",
                               dict(origin, damaged=data, kind=kind, detail=detail, returned=repr(out)[:1500]))
        return
    res.violation(f"damage-accepted:{kind}:{detail.split('@')[0]}", f"read_batch returned a batch for damaged input ({kind}: {detail})",
                  dict(origin, damaged=data, kind=kind, detail=detail, returned=repr(out)[:1500]))


def _crc_state(data: bytes, c: int = 0xFFFFFFFF) -> int:
    t = recref._TABLE  # noqa: SLF001
    for b in data:
        c = t[(c ^ b) & 0xFF] ^ (c >> 8)
    return c


def _colliding_truncation(rng) -> tuple[bytes, int, dict]:  # noqa: ANN001
    """A well-formed batch and a cut length k such that the checksummed bytes that survive removing the last k bytes have the same
    CRC-32C as the whole: the last record ends in a header value ``stem + T + C`` where the four bytes T are solved for (the CRC
    register is affine over GF(2) in T).  A reader that trusts the checksum alone cannot see this truncation."""
    b, _ = gen_batch(rng, False, 4)
    k = rng.choice((4, 4, 5, 8, 17, 64, 300))
    stem, tail = rng.randbytes(rng.randint(0, 20)), rng.randbytes(k - 4)
    rec = b["records"][-1]
    rec["headers"] = [*rec["headers"], (rng.choice((b"h", b"", "ключ".encode())), stem + bytes(4) + tail)]
    raw0 = recref.encode_batch(b)
    assert raw0.endswith(bytes(4) + tail)
    s0 = _crc_state(raw0[21:len(raw0) - k])

    def h(t: bytes) -> int:
        return _crc_state(tail, _crc_state(t, s0))

    h0 = h(bytes(4))
    rows = [(h((1 << j).to_bytes(4, "big")) ^ h0, 1 << j) for j in range(32)]  # (image, combination)
    target, combo = s0 ^ h0, 0
    for bit in range(31, -1, -1):
        piv = next((r for r in rows if r[0] >> bit & 1), None)
        if piv is None:
            continue
        rows.remove(piv)
        rows = [(r[0] ^ piv[0], r[1] ^ piv[1]) if r[0] >> bit & 1 else r for r in rows]
        if target >> bit & 1:
            target ^= piv[0]
            combo ^= piv[1]
    assert target == 0, "the four free bytes always reach every register value"
    rec["headers"][-1] = (rec["headers"][-1][0], stem + combo.to_bytes(4, "big") + tail)
    raw = recref.encode_batch(b)
    assert recref.crc32c(raw[21:len(raw) - k]) == int.from_bytes(raw[17:21], "big") == recref.crc32c(raw[21:])
    return raw, k, b


def _region(off: int, n_total: int) -> str:
    bounds = ((17, 21, "crc"), (21, 23, "attributes"), (23, 27, "last_offset_delta"), (27, 35, "base_timestamp"), (35, 43, "max_timestamp"),
              (43, 51, "producer_id"), (51, 53, "producer_epoch"), (53, 57, "base_sequence"), (57, 61, "record_count"))
    for lo, hi, name in bounds:
        if lo <= off < hi:
            return name
    return "records"


def _damage(res: Result, rng, raw: bytes, outcomes: dict, origin: dict, exhaustive_limit: int) -> None:  # noqa: ANN001
    n = len(raw)
    # every single-bit flip from the CRC field to the end
    if n <= exhaustive_limit:
        positions = range(17 * 8, n * 8)
        res.count("batches_with_all_bit_flips")
    else:
        must = set(range(17 * 8, 61 * 8))
        must |= {rng.randrange(61 * 8, n * 8) for _ in range(2000)}
        positions = sorted(must)
    for bit in positions:
        byte, k = divmod(bit, 8)
        d = bytearray(raw)
        d[byte] ^= 1 << k
        _must_fail(res, bytes(d), "bitflip", f"{_region(byte, n)}@{byte}.{k}", outcomes, origin)
        res.count("bit_flips")
    # wrong magic
    for m in range(256):
        if m != 2:
            d = bytearray(raw)
            d[16] = m
            _must_fail(res, bytes(d), "magic", f"magic={m}", outcomes, origin)
            res.count("magics")
    # every truncation point
    cuts = range(n) if n <= 4096 else sorted({0, 1, 7, 8, 11, 12, 16, 17, 20, 21, 60, 61, n - 1} | {rng.randrange(n) for _ in range(1500)})
    for c in cuts:
        _must_fail(res, raw[:c], "truncation", f"cut@{c}", outcomes, origin)
        res.count("truncations")


def c18_worker(res: Result, i: int, n: int) -> None:
    from kio.records.readers import read_batch

    total = 320 if res.tier == "quick" else 16000
    thorough = res.tier == "thorough"
    outcomes: dict[str, int] = {}
    distinct: set[bytes] = set()
    work: list[tuple[str, bytes, dict]] = []
    for k, raw in enumerate(recref.fixtures()):
        if k % n == i:
            b, _ = recref.decode_batch(raw)
            work.append((f"real-broker fixture {k}", raw, b))
    for k in range(i, total, n):
        rng = common.rng_for("C18", k)
        b, cell = gen_batch(rng, False, 12 if k % 5 else 40)
        if k % 3 == 0:
            # header fields need not be "derived" for a batch coming from a broker: free last_offset_delta / larger max
            b["last_offset_delta"] = rng.randint(0, 2**31 - 1)
            b["max_timestamp"] = min(2**63 - 1, b["max_timestamp"] + rng.randint(0, 10**6))
        if k % 10 == 7 and b["records"]:
            # LogAppendTime (attribute bit 3): the broker overwrites max_timestamp with its own clock when it appends and leaves the
            # producer's per-record timestamps as they are - with the producer's clock ahead, records lie above the header's maximum
            tmax = max(b["base_timestamp"] + r["timestamp_delta"] for r in b["records"])
            b["attributes"] |= 0x08
            b["max_timestamp"] = max(0, tmax - rng.choice((1, 999, 1000, 60_000, 3_600_000)))
            cell = dict(cell, order=cell["order"] + "+logappendtime")
            res.count("log_append_time_batches_with_records_above_max_timestamp")
        if k % 4 == 2:
            # a compacted batch: the records at its head are gone, base offset / base timestamp (and last offset delta) are preserved, so the
            # first surviving record has non-zero deltas
            do = rng.choice((1, 2, 63, 64, 1000, 8192))
            dt = rng.choice((0, 1, 999, 1000, 86_400_000))
            if b["base_offset"] - do >= -(2**63) and all(r["offset_delta"] + do <= 2**31 - 1 for r in b["records"]) and b["last_offset_delta"] + do <= 2**31 - 1:
                b["base_offset"] -= do
                b["last_offset_delta"] += do
                for r in b["records"]:
                    r["offset_delta"] += do
                res.count("compacted_batches_first_offset_delta_nonzero")
            if b["base_timestamp"] - dt >= 0:
                b["base_timestamp"] -= dt
                for r in b["records"]:
                    r["timestamp_delta"] += dt
                res.count("compacted_batches_first_timestamp_delta_nonzero")
            cell = dict(cell, order=cell["order"] + "+compacted")
        work.append((f"generated #{k} {cell['n']}/{cell['order']}/{cell['time']}", recref.encode_batch(b), b))
    for k in range(i, 6 if res.tier == "quick" else 64, n):
        # batches beyond 1 MiB (the broker's default message.max.bytes is a limit of a broker, not of the format): one large value, one
        # large header value, or many mid-size records
        rng = common.rng_for("C18", "large", k)
        b, cell = gen_batch(rng, False, 3)
        shape = k % 3
        if shape == 0:
            b["records"][0]["value"] = rng.randbytes(rng.choice((1 << 20, (1 << 21) + 7)))
        elif shape == 1:
            b["records"][-1]["headers"] = [(b"big", rng.randbytes((1 << 20) + 100))]
        else:
            proto = dict(b["records"][0], value=rng.randbytes(40_000), headers=[])
            b["records"] = [dict(proto, offset_delta=j, timestamp_delta=0) for j in range(30)]
            b["last_offset_delta"] = 29
            b["max_timestamp"] = b["base_timestamp"]
        res.count("batches_beyond_1MiB")
        work.append((f"large #{k} shape {shape}", recref.encode_batch(b), b))
    if i == 0:
        # far beyond any broker's default limits (the format's own limit is the int32 batch length): identity only, no damage sweep
        for size in ((16 << 20) + 5, (70 << 20) + 1) if res.tier == "quick" else ((16 << 20) + 5, (70 << 20) + 1, (300 << 20) + 3):
            rng = common.rng_for("C18", "huge", size)
            b, _ = gen_batch(rng, False, 2)
            b["records"] = b["records"][:1]
            b["records"][0].update(value=bytes(size), timestamp_delta=0, offset_delta=0)
            b["last_offset_delta"] = 0
            b["max_timestamp"] = b["base_timestamp"]
            res.count("batches_beyond_16MiB")
            raw = recref.encode_batch(b)
            _identity(res, raw, b, f"huge batch {size >> 20} MiB")
            if size < (32 << 20):
                # damage is damage at any size: a few flipped bits (payload, header, CRC field) and cuts
                origin = {"origin": f"huge batch {size >> 20} MiB", "bytes": b"<%d bytes>" % len(raw)}
                for pos in (17, 20, 30, 61, len(raw) // 2, len(raw) - 1, rng.randrange(61, len(raw))):
                    d = bytearray(raw)
                    d[pos] ^= 1 << rng.randrange(8)
                    _must_fail(res, bytes(d), "bitflip", f"huge@{pos}", outcomes, origin)
                    res.count("bit_flips")
                for cut in (len(raw) - 1, len(raw) - 3, len(raw) // 2, 61):
                    _must_fail(res, raw[:cut], "truncation", f"cut@{cut}", outcomes, origin)
                    res.count("truncations")
    for k in range(i, 24 if res.tier == "quick" else 400, n):
        rng = common.rng_for("C18", "tiny", k)
        b, cell = tiny_records_batch(rng, (49, 50, 51, 64, 100, 128, 300, 1000)[k % 8] if k < 16 else None)
        res.count("batches_of_many_tiny_records")
        work.append((f"tiny-records #{k} n={len(b['records'])}/{cell['kv'][0]}", recref.encode_batch(b), b))
    for k in range(i, 16 if res.tier == "quick" else 200, n):
        # a batch without records: what a broker keeps (and serves) after compaction / DeleteRecords removed every record of an idempotent
        # or transactional producer's batch - header fields, including last offset delta and the timestamps, are preserved
        rng = common.rng_for("C18", "empty", k)
        b, _ = gen_batch(rng, False, 3)
        b["records"] = []
        res.count("batches_without_records")
        work.append((f"zero-records #{k}", recref.encode_batch(b), b))
    prev_raw = None
    for label, raw, b in work:
        rng = common.rng_for("C18", "damage", label)
        res.count("batches")
        if prev_raw is not None and rng.random() < 0.5:
            # history noise: an earlier read in this process failed (another batch, cut off / corrupted)
            res.count("failed_read_noise")
            for bad in (prev_raw[: rng.randrange(len(prev_raw))], prev_raw[:30] + bytes([prev_raw[30] ^ 0x10]) + prev_raw[31:]):
                try:
                    read_batch(io.BytesIO(bad))
                except Exception:  # noqa: BLE001
                    pass
        prev_raw = raw
        ok = _identity(res, raw, b, label)
        distinct.add(hashlib.sha256(raw).digest()[:12])
        if ok or True:
            _damage(res, rng, raw, outcomes, {"origin": label, "bytes": raw}, 256 if not thorough else 768)
        if res.counters["batches"] % 37 == 1:
            res.sample({"origin": label, "bytes": raw, "records": len(b["records"])})
    # record timestamps that kio's record model cannot hold: NO_TIMESTAMP (-1, written by brokers for up-converted messages), other
    # negative values, beyond year 9999.  The batches are well-formed; reading them is expected to be the identity like any other.
    for k in range(i, 48 if not thorough else 1500, n):
        rng = common.rng_for("C18", "timestamps-outside", k)
        b, _ = gen_batch(rng, False, 4)
        mode = ("no-timestamp", "negative-record", "beyond-9999")[k % 3]
        if mode == "no-timestamp":
            b["base_timestamp"] = b["max_timestamp"] = -1
            for r in b["records"]:
                r["timestamp_delta"] = 0
        elif mode == "negative-record":
            b["base_timestamp"] = rng.choice((0, 1, 999, 1000, 5000))
            b["records"][rng.randrange(len(b["records"]))]["timestamp_delta"] = -b["base_timestamp"] - rng.choice((1, 2, 1000, 86_400_000))
            b["max_timestamp"] = max(b["base_timestamp"] + r["timestamp_delta"] for r in b["records"])
        else:
            b["base_timestamp"] = gen.DT_MAX - rng.choice((0, 1, 500))
            b["records"][-1]["timestamp_delta"] = rng.choice((1, 2, 1000, 2**40)) + (gen.DT_MAX - b["base_timestamp"])
            b["max_timestamp"] = max(b["base_timestamp"] + r["timestamp_delta"] for r in b["records"])
        res.count("batches_with_timestamps_outside_the_model")
        _identity(res, recref.encode_batch(b), b, f"{mode} batch #{k}")
    # truncations that a checksum cannot see: the surviving bytes are crafted to have the recorded CRC
    for k in range(i, 64 if not thorough else 4000, n):
        rng = common.rng_for("C18", "colliding", k)
        raw, cut, b = _colliding_truncation(rng)
        res.count("colliding_truncation_batches")
        if not _identity(res, raw, b, f"colliding-crc batch #{k}"):
            continue
        _must_fail(res, raw[:len(raw) - cut], "truncation-colliding-crc", f"cut@{len(raw) - cut} of {len(raw)}", outcomes, {"origin": f"colliding-crc batch #{k}", "bytes": raw})
        res.count("truncations")
    # batches that are not at the start of the stream: identity at a non-zero offset, and damage to a *later* batch of a stream
    for k in range(i, 48 if not thorough else 1500, n):
        rng = common.rng_for("C18", "offset", k)
        first, _ = gen_batch(rng, False, 4)
        b, cell = gen_batch(rng, False, 6)
        lead = recref.encode_batch(first) if k % 2 else rng.randbytes(rng.choice((1, 16, 17, 61)))
        raw = recref.encode_batch(b)
        res.count("offset_batches")
        src = io.BytesIO(lead + raw + b"\x55")
        src.seek(len(lead))
        try:
            got = read_batch(src)
            okay = src.tell() == len(lead) + len(raw) and got.base_offset == b["base_offset"] and len(got.records) == len(b["records"]) and got.crc == int.from_bytes(raw[17:21], "big")
            why = f"returned base_offset={got.base_offset}, {len(got.records)} records, position {src.tell()} (expected {len(lead) + len(raw)})"
        except Exception as exc:  # noqa: BLE001
            okay, why = False, f"raised {exc!r}"
        if not okay:
            res.violation("offset-batch", f"a well-formed batch that starts at stream offset {len(lead)} was not read faithfully: {why}", {"stream": lead + raw, "offset": len(lead)})
            continue
        res.count("offset_batches_ok")
        variants = [("magic", raw[:16] + bytes([m]) + raw[17:]) for m in (0, 1, 3, 255)]
        variants += [("bitflip", raw[:p] + bytes([raw[p] ^ (1 << rng.randrange(8))]) + raw[p + 1:]) for p in (rng.randrange(17, len(raw)) for _ in range(24))]
        variants += [("truncation", raw[:c]) for c in (rng.randrange(len(raw)) for _ in range(12))]
        for kind, bad in variants:
            s2 = io.BytesIO(lead + bad)
            s2.seek(len(lead))
            res.count("damaged_variants")
            res.count("later_batch_damage")
            try:
                out = read_batch(s2)
            except Exception as exc:  # noqa: BLE001
                outcomes[f"later-{kind}:{type(exc).__name__}"] = outcomes.get(f"later-{kind}:{type(exc).__name__}", 0) + 1
                continue
            res.violation(f"damage-accepted:later-batch:{kind}", f"read_batch returned a batch for a damaged batch ({kind}) that follows {len(lead)} earlier bytes on the stream",
                          {"stream": lead + bad, "offset": len(lead), "kind": kind, "returned": repr(out)[:1200]})
    # several batches back to back on one stream
    for k in range(i, 40 if not thorough else 2000, n):
        rng = common.rng_for("C18", "stream", k)
        parts = []
        for _ in range(rng.randint(2, 5)):
            b, _ = gen_batch(rng, False, 6)
            parts.append((recref.encode_batch(b), b))
        data = b"".join(p for p, _ in parts) + rng.randbytes(rng.choice((0, 5)))
        src = io.BytesIO(data)
        pos = 0
        res.count("streams")
        for raw, b in parts:
            pos += len(raw)
            try:
                got = read_batch(src)
            except Exception as exc:  # noqa: BLE001
                res.violation(f"stream-raises:{type(exc).__name__}", f"read_batch raised {exc!r} on batch {len(raw)}B inside a stream of batches", {"stream": data, "error": traceback.format_exc()})
                break
            if src.tell() != pos or got.base_offset != b["base_offset"] or len(got.records) != len(b["records"]):
                res.violation("stream-position", f"after a batch the stream is at {src.tell()}, the boundary is {pos}", {"stream": data})
                break
            res.count("stream_batches_ok")
    res.coverage["damage_outcomes"] = outcomes
    res.coverage["distinct_batches"] = len(distinct)


def run_c18(tier_: str) -> int:
    res = Result("C18", "fault_enumeration", tier_)
    errs = recref.self_test()
    if errs:
        res.inconclusive_because("reference batch codec self-test failed: " + "; ".join(errs[:3]))
    shard.run(res, "kv.checks.records:c18_worker", timeout=1200 if tier_ == "quick" else 7200)
    c = res.counters
    res.assumptions += ["reference batch encoder and CRC-32C as in C17", "damage outside [crc .. end] other than the magic byte is not claimed by the property and not probed"]
    floor_ok = c.get("batches", 0) >= 50 and c.get("bit_flips", 0) > 10000 and c.get("truncations", 0) > 1000 and c.get("magics", 0) > 1000 and \
        (c.get("identity_strict_ok", 0) + c.get("identity_explained_by_D4", 0)) > 0 and c.get("stream_batches_ok", 0) > 0 and c.get("offset_batches_ok", 0) > 0
    return res.finish(c.get("batches", 0) + c.get("damaged_variants", 0) + c.get("streams", 0), int(res.coverage.get("distinct_batches", 0)),
                      "reference-encoded well-formed batches (generator of C17, also non-derived header fields) and the four real-broker fixtures: "
                      "read_batch must return every header field and record as encoded and write_batch must reproduce the bytes; then every single-bit "
                      "flip from the CRC field to the end (exhaustive for batches <= 256 B, otherwise all header bits + 2000 sampled), all 255 wrong magic "
                      "bytes and every truncation point must make read_batch raise; several batches back to back must leave the stream on the boundary; "
                      "distinct = distinct well-formed batches",
                      floor_ok)


def run(prop: str, tier_: str) -> int:
    return run_c17(tier_) if prop == "C17" else run_c18(tier_)


def replay(prop: str, path: str) -> int:
    doc = common.load_replay(path)
    case = doc["case"]
    if prop == "C17":
        from kio.records.schema import NewRecordBatch
        from kio.records.writers import write_new_batch

        res = Result("C17", "exploration", doc.get("tier", "quick"))
        b = dict(case["batch"])
        b["_abs"] = {"offsets": [b["base_offset"] + r["offset_delta"] for r in b["records"]],
                     "timestamps": [b["base_timestamp"] + r["timestamp_delta"] for r in b["records"]]}
        b["records"] = [dict(r, headers=[tuple(h) for h in r["headers"]]) for r in b["records"]]
        print(f"replay C17: batch of {len(b['records'])} records ({doc['key']})")
        try:
            buf = io.BytesIO()
            write_new_batch(buf, NewRecordBatch(producer_id=b["producer_id"], producer_epoch=b["producer_epoch"], partition_leader_epoch=b["partition_leader_epoch"],
                                                base_sequence=b["base_sequence"], records=to_kio_records(b), attributes=b["attributes"]))
            if buf.getvalue() != recref.encode_batch(b):
                res.violation(doc["key"], "write_new_batch output differs from the reference v2 encoding of its input", case)
        except Exception as exc:  # noqa: BLE001
            res.violation(doc["key"], f"write_new_batch raised {exc!r}", case)
        return common.finish_replay(res)
    res = Result("C18", "fault_enumeration", doc.get("tier", "quick"))
    raw = case["bytes"]
    print(f"replay C18: batch of {len(raw)} bytes, {case.get('kind', 'identity')} ({doc['key']})")
    if "damaged" in case:
        _must_fail(res, case["damaged"], case["kind"], case["detail"], {}, {"origin": case.get("origin"), "bytes": raw})
    else:
        b, _ = recref.decode_batch(raw)
        _identity(res, raw, b, case.get("origin", "replay"))
    return common.finish_replay(res)
