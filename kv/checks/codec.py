"""C01, C02, C03, C05: reference-model monitors over the real entity_reader / entity_writer."""
from __future__ import annotations

import hashlib
import io
import struct
import traceback

from .. import common, describe, gen, refcodec, shard, walk
from ..common import Result
from ..streams import ReadOnlySource

PER_CLASS = {
    # property: (quick extra random trees, thorough random trees)
    "C01": (10, 2500),
    "C02": (10, 2500),
    "C03": (10, 2500),
    "C05": (10, 2500),
}


def _my_classes(i: int, n: int) -> list[type]:
    cs = walk.classes()
    return [c for k, c in enumerate(cs) if k % n == i]


def kio_encode(cls: type, inst: object) -> bytes:
    from kio.serial import entity_writer

    buf = io.BytesIO()
    entity_writer(cls)(buf, inst)
    return buf.getvalue()


def bits_equal_tree(a: object, b: object) -> bool:
    """Tree equality where floats compare by bit pattern (NaN == NaN, 0.0 != -0.0)."""
    if isinstance(a, float) and isinstance(b, float):
        return struct.pack(">d", a) == struct.pack(">d", b)
    if isinstance(a, dict) and isinstance(b, dict):
        ka = [k for k in a if k not in refcodec.RESERVED]
        kb = [k for k in b if k not in refcodec.RESERVED]
        return set(ka) == set(kb) and all(bits_equal_tree(a[k], b[k]) for k in ka)
    if isinstance(a, list) and isinstance(b, list):
        return len(a) == len(b) and all(bits_equal_tree(x, y) for x, y in zip(a, b))
    return type(a) is type(b) and a == b


def _case_payload(cls: type, tree: dict, **extra: object) -> dict:
    d = {"class": walk.class_path(cls), "tree": tree}
    d.update(extra)
    return d


def _exc_key(exc: BaseException) -> str:
    tb = traceback.extract_tb(exc.__traceback__)
    where = ""
    for fr in reversed(tb):
        if "/kio/" in fr.filename:
            where = f"{fr.filename.rsplit('/kio/', 1)[1]}:{fr.name}"
            break
    return f"{type(exc).__name__}@{where}"


def _trees_for(g: gen.Gen, spec: describe.StructSpec, prop: str, tier_: str) -> list[dict]:
    quick_extra, thorough_n = PER_CLASS[prop]
    trees = g.each_choice(spec, extra_random=quick_extra)
    if tier_ == "thorough":
        trees += [g.struct(spec) for _ in range(thorough_n)]
    return trees


class _Interrupt(BaseException):
    """Stands in for KeyboardInterrupt (not an Exception, so `except Exception` clean-up code does not see it)."""


class _InterruptedAt:
    """A source whose read is interrupted once it would pass `cut`."""

    def __init__(self, data: bytes, cut: int) -> None:
        self._data, self._pos, self._cut = data, 0, cut

    def read(self, n: int = -1) -> bytes:
        if n < 0 or self._pos + n > self._cut:
            raise _Interrupt
        out = self._data[self._pos:self._pos + n]
        self._pos += n
        return out


def failed_call_noise(res: Result, cls: type, spec: describe.StructSpec, tree: dict, rng) -> None:  # noqa: ANN001
    """History noise: a decode and an encode of the same class that fail part-way (truncated input, sink error at a random
    write call).  Whatever they raise is not this check's business; what matters is that the *next* case is unaffected."""
    from kio.serial import entity_reader, entity_writer
    from ..streams import WriteOnlySink

    res.count("failed_call_noise")
    try:
        wire = refcodec.encode_bytes(spec, tree)
        if wire:
            entity_reader(cls)(io.BytesIO(wire[: rng.randrange(len(wire))]))
    except Exception:  # noqa: BLE001
        pass
    if len(spec.tagged) >= 2:
        # the same, aimed: every tagged field is on the wire and the input ends inside the tagged section, after at least one tagged field
        # has been read completely - whatever the reader collected for this message must not be there for the next one
        try:
            full = gen.Gen(rng, "canonical", big_prob=0.0).all_tags_nondefault(spec)
            if full is not None:
                wire, layout = refcodec.encode(spec, full)
                own = [off for off, _, role, path in layout if role == "tag" and path.count(".") == 1 and "[" not in path]
                if len(own) >= 2:
                    cut = rng.choice(own[1:]) + rng.choice((0, 1))
                    res.count("failed_call_noise_inside_tagged_section")
                    if rng.random() < 0.5:
                        entity_reader(cls)(io.BytesIO(wire[:cut]))
                    else:
                        # the same cut, but the read is *interrupted* (a BaseException, as Ctrl-C during a blocking read) instead of
                        # coming back short
                        res.count("failed_call_noise_interrupted")
                        entity_reader(cls)(_InterruptedAt(wire, cut))
        except BaseException as exc:  # noqa: BLE001
            if isinstance(exc, (SystemExit, MemoryError)):
                raise
    try:
        inst = describe.tree_to_instance(spec, tree)
        probe = WriteOnlySink()
        entity_writer(cls)(probe, inst)
        n = probe.observed_calls()
        entity_writer(cls)(WriteOnlySink(fail_at=rng.randrange(max(1, n)), fail_exc=OSError("injected")), inst)
    except Exception:  # noqa: BLE001
        pass
    try:
        # an instance one of whose integers is out of range: the encoder fails in the middle of a (possibly tagged, nested) field
        poisoned = _poison(spec, tree, rng)
        if poisoned is not None:
            entity_writer(cls)(io.BytesIO(), describe.tree_to_instance(spec, poisoned))
    except Exception:  # noqa: BLE001
        pass


def _poison(spec: describe.StructSpec, tree: dict, rng) -> dict | None:  # noqa: ANN001
    import copy

    t = copy.deepcopy(tree)
    _strip_extras(t)
    leaves: list[tuple[object, object, bool]] = []

    def visit(sp: describe.StructSpec, node: dict, in_tag: bool) -> None:
        for fs in sp.fields:
            v = node.get(fs.name)
            tagged = in_tag or fs.tag is not None
            if fs.kind == "prim" and fs.ktype in ("int8", "int16", "int32", "int64", "uint16", "uint32", "uint64"):
                if fs.array and v:
                    leaves.append((v, len(v) - 1, tagged))
                elif not fs.array and v is not None:
                    leaves.append((node, fs.name, tagged))
            elif fs.kind == "struct" and v is not None:
                for item in (v if fs.array else [v]):
                    if item is not None:
                        visit(fs.struct, item, tagged)

    visit(spec, t, False)
    if not leaves:
        return None
    tagged_leaves = [x for x in leaves if x[2]]
    container, key, _ = rng.choice(tagged_leaves if tagged_leaves and rng.random() < 0.7 else leaves)
    container[key] = 2**70  # type: ignore[index]
    return t


# ---------------------------------------------------------------------------------------
# C01


def c01_case(res: Result, cls: type, spec: describe.StructSpec, tree: dict, tail: bytes) -> bytes | None:
    from kio.serial import entity_reader

    res.count("cases")
    try:
        # timestamps expressed in fixed-offset zones (incl. offsets with a sub-minute / sub-second part): what comes back is the same
        # instant in UTC, which Python's == accepts as equal for fixed offsets.  (Zones with DST are left to C02/C15: inside a fold
        # == between zones is False by PEP 495 whatever kio does.)
        if _has_timestamp(spec) and res.counters["cases"] % 2:
            describe.INSTANCE_TZ = _FIXED_ZONES[res.counters["cases"] // 2 % len(_FIXED_ZONES)]
            res.count("cases_with_timestamps_in_other_zones")
        try:
            inst = describe.tree_to_instance(spec, tree)
        finally:
            describe.INSTANCE_TZ = None
        enc = kio_encode(cls, inst)
    except Exception as exc:  # noqa: BLE001
        res.violation(f"encode-raises:{cls.__name__}:{_exc_key(exc)}",
                      f"encoding an in-range {walk.class_path(cls)} instance raised {exc!r}",
                      _case_payload(cls, tree, tail=tail, error=traceback.format_exc()))
        return None
    src = ReadOnlySource(enc + tail)
    try:
        dec = entity_reader(cls)(src)
    except Exception as exc:  # noqa: BLE001
        res.violation(f"decode-raises:{cls.__name__}:{_exc_key(exc)}",
                      f"decoding kio's own encoding of {walk.class_path(cls)} raised {exc!r}",
                      _case_payload(cls, tree, tail=tail, encoding=enc, error=traceback.format_exc()))
        return None
    if not (dec == inst):
        res.violation(f"not-identity:{cls.__name__}:{_first_diff_field(spec, dec, inst)}",
                      f"decode(encode(x)) != x for {walk.class_path(cls)} (first differing field "
                      f"{_first_diff_field(spec, dec, inst)})",
                      _case_payload(cls, tree, tail=tail, encoding=enc, decoded=repr(dec)[:2000]))
    else:
        res.count("identity_ok")
    pos = src.observed_position()
    if pos != len(enc) or src.observed_events() or src.observed_requested() != len(enc):
        res.violation(f"consumption:{cls.__name__}",
                      f"decoder consumed {pos} bytes (requested {src.observed_requested()}) of a {len(enc)}-byte "
                      f"encoding followed by {len(tail)} foreign bytes; events={src.observed_events()}",
                      _case_payload(cls, tree, tail=tail, encoding=enc, reads=src.observed_reads()[:50]))
    else:
        res.count("consumption_ok")
    if tail:
        res.count("cases_with_tail")
    return enc


def c01_worker(res: Result, i: int, n: int) -> None:
    classes = _my_classes(i, n)
    distinct: set[bytes] = set()
    cells_total = 0
    cells_hit = 0
    for cls in classes:
        spec = describe.spec_from_class(cls)
        rng = common.rng_for("C01", walk.class_path(cls))
        g = gen.Gen(rng, "canonical")
        prev = None
        for tree in _trees_for(g, spec, "C01", res.tier):
            if prev is not None and rng.random() < 0.2:
                failed_call_noise(res, cls, spec, prev, rng)
            prev = tree
            tail = rng.randbytes(rng.choice((0, 1, 7, 64)))
            enc = c01_case(res, cls, spec, tree, tail)
            if enc is not None and gen.is_nontrivial(spec, tree):
                distinct.add(hashlib.sha256(cls.__module__.encode() + cls.__name__.encode() + enc).digest()[:12])
            if res.counters["cases"] % 4001 == 1 and enc is not None:
                res.sample({"class": walk.class_path(cls), "tree": tree, "encoding": enc})
        cells_total += g.total_cells(spec)
        cells_hit += len({c for c in g.cells_hit if c[0] == spec.name and any(f.name == c[1] for f in spec.fields)})
        res.count("classes")
    res.coverage["choice_cells_total"] = cells_total
    res.coverage["choice_cells_hit"] = cells_hit
    res.coverage["distinct_nontrivial_encodings"] = len(distinct)


def _first_diff_field(spec: describe.StructSpec, a: object, b: object) -> str:
    for fs in spec.fields:
        try:
            if getattr(a, fs.name) != getattr(b, fs.name):
                return fs.name
        except Exception:  # noqa: BLE001
            return fs.name
    return "?"


# ---------------------------------------------------------------------------------------
# C02


def c02_worker(res: Result, i: int, n: int) -> None:
    classes = _my_classes(i, n)
    distinct: set[bytes] = set()
    roles: dict[str, int] = {}
    rows: dict[str, int] = {}
    for cls in classes:
        spec = describe.spec_from_class(cls)
        rng = common.rng_for("C02", walk.class_path(cls))
        g = gen.Gen(rng, "canonical")
        prev = None
        for tree in _trees_for(g, spec, "C02", res.tier):
            if prev is not None and rng.random() < 0.2:
                failed_call_noise(res, cls, spec, prev, rng)
            prev = tree
            _c02_case(res, cls, spec, tree, distinct, roles)
        for fs in spec.fields:
            if fs.kind == "prim":
                key = f"{fs.ktype}|{'flex' if spec.flexible else 'legacy'}|{'nullable' if fs.nullable else 'plain'}|{'array' if fs.array else 'scalar'}"
                rows[key] = rows.get(key, 0) + 1
        res.count("classes")
    if i == 0:
        _c02_derived(res, distinct, roles)
    res.coverage["roles_compared"] = roles
    res.coverage["type_rows_compared"] = rows
    res.coverage["distinct_nontrivial_encodings"] = len(distinct)


def _c02_case(res: Result, cls: type, spec: describe.StructSpec, tree: dict, distinct: set, roles: dict,
              label: str | None = None, derived: dict | None = None) -> None:
    res.count("cases")
    name = label or walk.class_path(cls)
    ref, layout = refcodec.encode(spec, tree)
    try:
        zone = None
        if _has_timestamp(spec) and res.counters["cases"] % 2:
            # the wire carries the instant: the zone a timestamp is expressed in (fixed offsets, zones with DST folds) must not matter
            zone = _ZONES[res.counters["cases"] // 2 % len(_ZONES)]  # (// 2: only odd case numbers get here)
            res.count("cases_with_timestamps_in_other_zones")
        describe.INSTANCE_TZ = zone
        try:
            inst = describe.tree_to_instance(spec, tree)
        finally:
            describe.INSTANCE_TZ = None
        got = kio_encode(cls, inst)
    except Exception as exc:  # noqa: BLE001
        res.violation(f"encode-raises:{cls.__name__}:{_exc_key(exc)}",
                      f"encoding an in-range {name} instance raised {exc!r}",
                      _case_payload(cls, tree, label=name, derived=derived, error=traceback.format_exc()))
        return
    if got != ref:
        at = refcodec.first_diff(got, ref)
        role, path = refcodec.role_at(layout, at)
        res.violation(f"bytes-differ:{cls.__name__}:{role}:{path.split('[')[0]}",
                      f"{name}: kio encoding differs from the Kafka wire format at byte {at} "
                      f"(reference role {role!r} of {path}); kio={got[max(0, at - 4):at + 8].hex()} ref={ref[max(0, at - 4):at + 8].hex()}",
                      _case_payload(cls, tree, label=name, derived=derived, kio=got, reference=ref, first_diff=at, role=role, path=path))
        return
    res.count("bytes_equal")
    for _, _, role, _ in layout:
        roles[role] = roles.get(role, 0) + 1
    if gen.is_nontrivial(spec, tree):
        distinct.add(hashlib.sha256(name.encode() + got).digest()[:12])
    if res.counters["cases"] % 4001 == 1:
        res.sample({"class": name, "tree": tree, "encoding": got, "layout": layout[:12]})


def _mk_zones() -> list:
    import datetime as _dt

    zones = [_dt.timezone(_dt.timedelta(hours=14)), _dt.timezone(_dt.timedelta(hours=-11, minutes=-30)), _dt.timezone.utc,
             # sub-minute and sub-second (whole-millisecond) UTC offsets: the wall clock's seconds and milliseconds are not the instant's
             _dt.timezone(_dt.timedelta(hours=1, milliseconds=500)), _dt.timezone(-_dt.timedelta(milliseconds=1)), _dt.timezone(_dt.timedelta(minutes=-44, seconds=-30, milliseconds=-250))]
    try:
        import zoneinfo

        for z in ("Europe/Berlin", "America/New_York", "Australia/Lord_Howe", "Asia/Kolkata"):
            try:
                zones.append(zoneinfo.ZoneInfo(z))
            except Exception:  # noqa: BLE001
                pass
    except ImportError:
        pass
    return zones


_ZONES = _mk_zones()
_FIXED_ZONES = [z for z in _ZONES if type(z).__name__ == "timezone"]
_ts_cache: dict[int, bool] = {}


def _has_timestamp(spec: describe.StructSpec) -> bool:
    k = id(spec)
    if k not in _ts_cache:
        _ts_cache[k] = any((fs.kind == "prim" and fs.ktype == "datetime_i64") or (fs.kind == "struct" and _has_timestamp(fs.struct)) for fs in spec.fields)
    return _ts_cache[k]


def derive_class(cls: type, tag_map: dict[int, int], reverse_tagged: bool) -> type:
    """Clone of a shipped class whose tagged fields are re-declared in another order with other
    tag numbers, so that ascending-tag ordering and multi-byte tags get exercised."""
    import dataclasses

    fields = list(dataclasses.fields(cls))
    tagged = [f for f in fields if "tag" in f.metadata]
    if reverse_tagged:
        it = iter(reversed(tagged))
        fields = [next(it) if "tag" in f.metadata else f for f in fields]
    specs = []
    for f in fields:
        md = dict(f.metadata)
        if "tag" in md:
            md["tag"] = tag_map[md["tag"]]
        kw: dict = {"metadata": md}
        if f.default is not dataclasses.MISSING:
            kw["default"] = f.default
        specs.append((f.name, f.type, dataclasses.field(**kw)))
    ns = {k: getattr(cls, k) for k in ("__type__", "__version__", "__flexible__", "__api_key__", "__header_schema__")
          if hasattr(cls, k)}
    new = dataclasses.make_dataclass(cls.__name__, specs, frozen=True, slots=True, kw_only=True, namespace=ns)
    new.__module__ = cls.__module__
    return new


def _c02_derived(res: Result, distinct: set, roles: dict) -> None:
    """Derived classes: tagged fields declared in descending order, tags 0/127/128/16384..."""
    pool = [c for c in walk.classes() if len(describe.spec_from_class(c).tagged) >= 1]
    rng = common.rng_for("C02", "derived")
    big = [0, 1, 5, 127, 128, 129, 300, 16383, 16384, 2**21, 2**28, 2**31 - 1]
    nvariants = 3 if res.tier == "quick" else 40
    for cls in pool:
        tags = [fs.tag for fs in describe.spec_from_class(cls).tagged]
        for v in range(nvariants):
            new_tags = rng.sample(big, len(tags))
            if v == 0:
                new_tags = sorted(new_tags)  # same relative order, bigger numbers
            tag_map = dict(zip(tags, new_tags))
            try:
                dcls = derive_class(cls, tag_map, reverse_tagged=bool(v % 2))
                dspec = describe.spec_from_class(dcls)
            except Exception as exc:  # noqa: BLE001
                res.inconclusive_because(f"could not derive a class from {cls.__name__}: {exc!r}")
                return
            g = gen.Gen(rng, "canonical")
            for tree in g.each_choice(dspec, extra_random=2):
                _c02_case(res, dcls, dspec, tree, distinct, roles,
                          label=f"derived({walk.class_path(cls)}, tags={tag_map}, reversed={bool(v % 2)})",
                          derived={"base": walk.class_path(cls), "tag_map": [[a, b] for a, b in tag_map.items()], "reversed": bool(v % 2)})
                res.count("derived_cases")
            res.count("derived_classes")


# ---------------------------------------------------------------------------------------
# C03


def _wire_trees(g: gen.Gen, spec: describe.StructSpec, prop: str, tier_: str) -> list[dict]:
    trees = _trees_for(g, spec, prop, tier_)
    return trees


def c03_case(res: Result, cls: type, spec: describe.StructSpec, tree: dict, tail: bytes) -> bytes | None:
    from kio.serial import entity_reader

    res.count("cases")
    wire, layout = refcodec.encode(spec, tree)
    expected = describe.tree_to_instance(spec, tree)
    src = ReadOnlySource(wire + tail)
    try:
        dec = entity_reader(cls)(src)
    except Exception as exc:  # noqa: BLE001
        res.violation(f"rejects-conforming:{_exc_key(exc)}:{_extras_kind(tree)}",
                      f"{walk.class_path(cls)}: decoding a conforming encoding raised {exc!r} "
                      f"(extras: {_extras_kind(tree)})",
                      _case_payload(cls, tree, tail=tail, wire=wire, error=traceback.format_exc()))
        return None
    try:
        back = describe.instance_to_tree(spec, dec)
        same = bits_equal_tree(back, tree)
    except describe.Inexact as exc:
        same = False
        back = f"<not representable: {exc}>"
    if not same or not _eq_or_nan(dec, expected, spec, tree):
        res.violation(f"wrong-value:{cls.__name__}:{_diff_path(back, tree)}",
                      f"{walk.class_path(cls)}: decoded value differs from what is on the wire at {_diff_path(back, tree)}",
                      _case_payload(cls, tree, tail=tail, wire=wire, decoded=back))
        return None
    if src.observed_position() != len(wire):
        res.violation(f"consumption:{cls.__name__}",
                      f"{walk.class_path(cls)}: decoder consumed {src.observed_position()} of {len(wire)} bytes",
                      _case_payload(cls, tree, tail=tail, wire=wire))
        return None
    res.count("decoded_ok")
    return wire


def c03_worker(res: Result, i: int, n: int) -> None:
    classes = _my_classes(i, n)
    distinct: set[bytes] = set()
    stats_total = {"unknown_tags": 0, "explicit_defaults": 0, "nondefault_tags": 0}
    by_depth: dict[str, int] = {}
    subsecond = 0
    for cls in classes:
        spec = describe.spec_from_class(cls)
        rng = common.rng_for("C03", walk.class_path(cls))
        g = gen.Gen(rng, "wire", unknown_tags=True)
        trees = _wire_trees(g, spec, "C03", res.tier)
        if spec.flexible:
            # every presence pattern of the class's own tags, and at least one unknown tag at top level
            trees += g.presence_patterns(spec)
            t = g.struct(spec)
            t["$unknown"] = g.unknown_for(spec)
            g.stats["unknown_tags"] += len(t["$unknown"])
            g.stats["unknown_by_depth"]["0"] = g.stats["unknown_by_depth"].get("0", 0) + len(t["$unknown"])
            trees.append(t)
        prev = None
        for tree in trees:
            if prev is not None and rng.random() < 0.2:
                failed_call_noise(res, cls, spec, prev, rng)
            prev = tree
            tail = rng.randbytes(rng.choice((0, 3)))
            wire = c03_case(res, cls, spec, tree, tail)
            if wire is None:
                continue
            subsecond += _count_subsecond(spec, tree)
            if gen.is_nontrivial(spec, tree):
                distinct.add(hashlib.sha256(cls.__module__.encode() + cls.__name__.encode() + wire).digest()[:12])
            if res.counters["cases"] % 4001 == 1:
                res.sample({"class": walk.class_path(cls), "tree": tree, "wire": wire})
        _c03_mutation_derived(res, cls, spec, rng, trees[: 6 if res.tier == "quick" else 40], 10 if res.tier == "quick" else 30)
        for k in stats_total:
            stats_total[k] += g.stats[k]
        for d, c in g.stats["unknown_by_depth"].items():
            by_depth[d] = by_depth.get(d, 0) + c
        res.count("classes")
        if spec.flexible:
            res.count("flexible_classes")
    res.coverage["unknown_tags_injected"] = stats_total["unknown_tags"]
    res.coverage["unknown_tags_by_nesting_depth"] = by_depth
    res.coverage["explicit_default_tags_sent"] = stats_total["explicit_defaults"]
    res.coverage["nondefault_tags_sent"] = stats_total["nondefault_tags"]
    res.coverage["subsecond_timestamps_or_durations"] = subsecond
    res.coverage["distinct_nontrivial_encodings"] = len(distinct)


def _c03_mutation_derived(res: Result, cls: type, spec: describe.StructSpec, rng, trees: list, per_tree: int) -> None:  # noqa: ANN001
    """More conforming inputs, found rather than constructed: mutate valid encodings and keep what the *strict reference decoder*
    still accepts (whole input consumed, every value inside the wire domain); kio must decode those to exactly the same values."""
    from kio.serial import entity_reader

    from .faults import _mutate

    bases = []
    for tree in trees:
        try:
            raw, layout = refcodec.encode(spec, tree)
        except refcodec.RefCodecError:
            continue
        if len(raw) <= 4096:
            bases.append((raw, layout))
    if not bases:
        return
    for _ in range(per_tree * len(bases)):
        raw, layout = rng.choice(bases)
        data, kind = _mutate(rng, raw, layout, rng.choice(bases)[0])
        if data == raw:
            continue
        res.count("mutation_candidates")
        try:
            want, used = refcodec.decode(spec, data)
        except refcodec.NonConforming:
            continue
        except Exception:  # noqa: BLE001
            continue
        if used != len(data) or not gen.tree_in_wire_domain(spec, want):
            continue
        res.count("mutation_derived_conforming")
        try:
            dec = entity_reader(cls)(io.BytesIO(data))
            back = describe.instance_to_tree(spec, dec)
            ok = bits_equal_tree(back, want)
            why = f"decoded value differs at {_diff_path(back, want)}"
        except Exception as exc:  # noqa: BLE001
            ok = False
            why = f"raised {exc!r}"
        if not ok:
            res.violation(f"mutation-derived:{cls.__name__}:{why.split('(')[0][:40]}",
                          f"{walk.class_path(cls)}: an encoding obtained by mutation ({kind}) that the strict reference decoder accepts as conforming: kio {why}",
                          {"class": walk.class_path(cls), "tree": want, "wire": data, "mutation": kind})


def _eq_or_nan(dec: object, expected: object, spec: describe.StructSpec, tree: dict) -> bool:
    if dec == expected:
        return True
    # dataclass == fails on NaN; the bitwise tree comparison has already passed then
    return _has_nan(tree)


def _has_nan(t: object) -> bool:
    if isinstance(t, float):
        return t != t
    if isinstance(t, dict):
        return any(_has_nan(v) for v in t.values())
    if isinstance(t, list):
        return any(_has_nan(v) for v in t)
    return False


def _extras_kind(tree: object) -> str:
    kinds = set()

    def walk_(t: object) -> None:
        if isinstance(t, dict):
            if t.get("$unknown"):
                kinds.add("unknown-tag")
            if t.get("$explicit"):
                kinds.add("explicit-default")
            for k, v in t.items():
                if k not in refcodec.RESERVED:
                    walk_(v)
        elif isinstance(t, list):
            for v in t:
                walk_(v)

    walk_(tree)
    return "+".join(sorted(kinds)) or "none"


def _diff_path(a: object, b: object, path: str = "") -> str:
    if isinstance(a, dict) and isinstance(b, dict):
        for k in b:
            if k in refcodec.RESERVED:
                continue
            if k not in a:
                return f"{path}.{k}"
            if not bits_equal_tree(a[k], b[k]):
                return _diff_path(a[k], b[k], f"{path}.{k}")
        return path or "?"
    if isinstance(a, list) and isinstance(b, list) and len(a) == len(b):
        for x, y in zip(a, b):
            if not bits_equal_tree(x, y):
                return _diff_path(x, y, path + "[]")
    return path or "?"


def _count_subsecond(spec: describe.StructSpec, tree: dict) -> int:
    n = 0
    for fs in spec.fields:
        v = tree.get(fs.name)
        if fs.kind == "prim" and fs.ktype in ("datetime_i64", "timedelta_i32", "timedelta_i64"):
            for x in (v if isinstance(v, list) else [v]):
                if isinstance(x, int) and x % 1000:
                    n += 1
        elif fs.kind == "struct" and v is not None:
            for x in (v if isinstance(v, list) else [v]):
                n += _count_subsecond(fs.struct, x)
    return n


# ---------------------------------------------------------------------------------------
# C05


def c05_worker(res: Result, i: int, n: int) -> None:
    from kio.serial import entity_reader

    classes = _my_classes(i, n)
    distinct: set[bytes] = set()
    lossy = {"subsecond": 0, "beyond_2^53": 0, "nan_or_inf": 0, "negative_zero": 0, "max_length_strings": 0}
    for cls in classes:
        spec = describe.spec_from_class(cls)
        rng = common.rng_for("C05", walk.class_path(cls))
        g = gen.Gen(rng, "wire", unknown_tags=False, big_prob=0.03)
        prev = None
        for tree in _trees_for(g, spec, "C05", res.tier):
            _strip_extras(tree)
            if prev is not None and rng.random() < 0.2:
                failed_call_noise(res, cls, spec, prev, rng)
            prev = tree
            res.count("cases")
            wire = refcodec.encode_bytes(spec, tree)  # canonical: no explicit defaults, no unknown tags
            _c05_case(res, cls, spec, wire, tree, canonical=True)
            _lossy_stats(spec, tree, lossy)
            if gen.is_nontrivial(spec, tree):
                distinct.add(hashlib.sha256(cls.__module__.encode() + cls.__name__.encode() + wire).digest()[:12])
            if res.counters["cases"] % 4001 == 1:
                res.sample({"class": walk.class_path(cls), "tree": tree, "wire": wire})
        _c05_accepted_inputs(res, cls, spec, rng, 40 if res.tier == "quick" else 600)
        _c05_outside_the_model(res, cls, spec, rng)
        # idempotence on non-canonical but conforming input (explicit defaults, unknown tags)
        if spec.flexible:
            g2 = gen.Gen(rng, "wire", unknown_tags=True)
            for tree in g2.each_choice(spec, extra_random=1)[:6]:
                wire = refcodec.encode_bytes(spec, tree)
                res.count("noncanonical_cases")
                _c05_case(res, cls, spec, wire, tree, canonical=False)
        res.count("classes")
    res.coverage["lossy_prone_values"] = lossy
    res.coverage["distinct_nontrivial_encodings"] = len(distinct)


_OUTSIDE_MODEL = {
    "timedelta_i64": (2**63 - 1, -(2**63), gen.TD64_MAX + 86_400_001, gen.TD64_MIN - 1, 86_400_000_000_000_000),
    "datetime_i64": (-2, -1000, gen.DT_MAX + 1, 2**63 - 1, -(2**63)),
    "error_code": (128, -2, 32767, -32768, 1000),
}


def _c05_outside_the_model(res: Result, cls: type, spec: describe.StructSpec, rng) -> None:  # noqa: ANN001
    """Wire values kio's value model cannot hold (int64 durations beyond timedelta, timestamps before 1970 or after 9999, error codes
    the enum does not know - "rejectable" by DESIGN 5.1).  Rejecting them is fine; accepting one and writing *other* bytes back is not:
    whatever the decoder accepts has to survive re-encoding unchanged."""
    from kio.serial import entity_reader
    from kio.serial.errors import SerialError

    mine = [fs for fs in spec.fields if fs.kind == "prim" and not fs.array and fs.ktype in _OUTSIDE_MODEL]
    if not mine:
        return
    g = gen.Gen(rng, "canonical", big_prob=0.0, long_arrays=False)
    for fs in mine:
        for v in _OUTSIDE_MODEL[fs.ktype]:
            if fs.ktype == "datetime_i64" and fs.nullable and v == -1:
                continue
            tree = g.struct(spec)
            _strip_extras(tree)
            tree[fs.name] = v
            try:
                wire = refcodec.encode_bytes(spec, tree)
            except Exception:  # noqa: BLE001
                res.count("outside_model_not_encodable_by_reference")
                continue
            res.count("outside_model_inputs")
            try:
                ent = entity_reader(cls)(io.BytesIO(wire))
            except (SerialError, ValueError, OverflowError):
                res.count("outside_model_rejected")
                continue
            except Exception as exc:  # noqa: BLE001
                res.violation(f"outside-model-raises:{type(exc).__name__}:{fs.ktype}", f"{walk.class_path(cls)}.{fs.name}: wire value {v} ({fs.ktype}) made the decoder raise {exc!r}",
                              _case_payload(cls, tree, wire=wire, error=traceback.format_exc()))
                continue
            try:
                back = kio_encode(cls, ent)
            except Exception as exc:  # noqa: BLE001
                back = repr(exc).encode()
            if back != wire:
                res.violation(f"outside-model-rewritten:{fs.ktype}", f"{walk.class_path(cls)}.{fs.name}: the decoder accepted the wire value {v} ({fs.ktype}), which the value model "
                              f"cannot hold, and re-encoding gives other bytes (first difference at {refcodec.first_diff(back, wire)}): silently rewritten instead of rejected or kept",
                              _case_payload(cls, tree, wire=wire, reencoded=back, decoded=repr(ent)[:1200]))
            else:
                res.count("outside_model_kept_exactly")


def _c05_accepted_inputs(res: Result, cls: type, spec: describe.StructSpec, rng, n: int) -> None:  # noqa: ANN001
    """'Whatever the decoder returns is accepted by the encoder, and decode-then-encode is idempotent on any accepted input':
    inputs here are mutated encodings (non-minimal varints, odd booleans, nulls in odd places, spliced bytes) that the decoder
    happens to accept; no reference is needed, only w(r(b)) == w(r(w(r(b))))."""
    from kio.serial import entity_reader

    from .faults import _mutate

    g = gen.Gen(rng, "wire", big_prob=0.0, long_arrays=False)
    bases = []
    for tree in [g.struct(spec) for _ in range(4)]:
        _strip_extras(tree)
        raw, layout = refcodec.encode(spec, tree)
        if len(raw) <= 4096:
            bases.append((raw, layout))
    if not bases:
        return
    reader = entity_reader(cls)
    for _ in range(n):
        raw, layout = rng.choice(bases)
        data, kind = _mutate(rng, raw, layout, rng.choice(bases)[0])
        try:
            dec = reader(io.BytesIO(data))
        except Exception:  # noqa: BLE001
            continue  # rejected input: C10's business
        res.count("accepted_mutated_inputs")
        try:
            e1 = kio_encode(cls, dec)
            d2 = reader(io.BytesIO(e1))
            e2 = kio_encode(cls, d2)
        except Exception as exc:  # noqa: BLE001
            res.violation(f"accepted-not-reencodable:{cls.__name__}:{_exc_key(exc)}",
                          f"{walk.class_path(cls)}: the decoder accepted a ({kind}-mutated) input but the result does not survive encode/decode: {exc!r}",
                          {"class": walk.class_path(cls), "input": data, "mutation": kind, "error": traceback.format_exc()})
            continue
        if e1 != e2:
            res.violation(f"accepted-not-idempotent:{cls.__name__}",
                          f"{walk.class_path(cls)}: decode-then-encode is not idempotent on an accepted ({kind}-mutated) input (first difference at byte {refcodec.first_diff(e1, e2)})",
                          {"class": walk.class_path(cls), "input": data, "mutation": kind, "e1": e1, "e2": e2})


def _strip_extras(t: object) -> None:
    if isinstance(t, dict):
        t.pop("$explicit", None)
        t.pop("$unknown", None)
        for v in t.values():
            _strip_extras(v)
    elif isinstance(t, list):
        for v in t:
            _strip_extras(v)


def _c05_case(res: Result, cls: type, spec: describe.StructSpec, wire: bytes, tree: dict, canonical: bool) -> None:
    from kio.serial import entity_reader

    try:
        dec = entity_reader(cls)(io.BytesIO(wire))
    except Exception as exc:  # noqa: BLE001
        res.violation(f"rejects-canonical:{cls.__name__}:{_exc_key(exc)}",
                      f"{walk.class_path(cls)}: decoding a {'canonical' if canonical else 'conforming'} encoding raised {exc!r}",
                      _case_payload(cls, tree, wire=wire, error=traceback.format_exc()))
        return
    try:
        e1 = kio_encode(cls, dec)
    except Exception as exc:  # noqa: BLE001
        res.violation(f"reencode-raises:{cls.__name__}:{_exc_key(exc)}",
                      f"{walk.class_path(cls)}: the encoder rejects what the decoder returned: {exc!r}",
                      _case_payload(cls, tree, wire=wire, decoded=repr(dec)[:2000], error=traceback.format_exc()))
        return
    if canonical and e1 != wire:
        at = refcodec.first_diff(e1, wire)
        _, layout = refcodec.encode(spec, tree)
        role, path = refcodec.role_at(layout, at)
        res.violation(f"lossy:{cls.__name__}:{path.split('[')[0]}",
                      f"{walk.class_path(cls)}: encode(decode(b)) != b at byte {at} ({role} of {path}): "
                      f"in={wire[max(0, at - 4):at + 8].hex()} out={e1[max(0, at - 4):at + 8].hex()}",
                      _case_payload(cls, tree, wire=wire, reencoded=e1, first_diff=at, path=path))
        return
    try:
        e2 = kio_encode(cls, entity_reader(cls)(io.BytesIO(e1)))
    except Exception as exc:  # noqa: BLE001
        res.violation(f"not-idempotent-raises:{cls.__name__}:{_exc_key(exc)}",
                      f"{walk.class_path(cls)}: second decode/encode pass raised {exc!r}",
                      _case_payload(cls, tree, wire=wire, e1=e1, error=traceback.format_exc()))
        return
    if e2 != e1:
        res.violation(f"not-idempotent:{cls.__name__}",
                      f"{walk.class_path(cls)}: decode-then-encode is not idempotent",
                      _case_payload(cls, tree, wire=wire, e1=e1, e2=e2))
        return
    res.count("lossless_ok" if canonical else "idempotent_ok")


def _lossy_stats(spec: describe.StructSpec, tree: dict, acc: dict) -> None:
    for fs in spec.fields:
        v = tree.get(fs.name)
        xs = v if isinstance(v, list) else [v]
        for x in xs:
            if x is None:
                continue
            if fs.kind == "struct":
                _lossy_stats(fs.struct, x, acc)
            elif fs.ktype in ("datetime_i64", "timedelta_i32", "timedelta_i64"):
                if x % 1000:
                    acc["subsecond"] += 1
                if abs(x) > 2**53:
                    acc["beyond_2^53"] += 1
            elif fs.ktype == "float64":
                if x != x or x in (float("inf"), float("-inf")):
                    acc["nan_or_inf"] += 1
                elif x == 0 and struct.pack(">d", x)[0] == 0x80:
                    acc["negative_zero"] += 1
            elif fs.ktype in ("string", "bytes", "records") and len(x) >= 16383:
                acc["max_length_strings"] += 1


# ---------------------------------------------------------------------------------------
# entry points


LEVEL = "exploration"
RULES = {
    "C01": "per class: each-choice coverage of every (field, choice cell) + random trees from the canonical domain; "
           "kio encode -> kio decode through an instrumented read-only source with foreign trailing bytes; "
           "distinct = distinct (class, encoding) with at least one non-default/non-empty field",
    "C02": "same generator; kio encoding compared byte-for-byte with the reference Kafka codec (independent "
           "description reader + spec-written encoder), plus derived classes with permuted/multi-byte tags; "
           "distinct = distinct (class, encoding) with at least one non-default/non-empty field",
    "C03": "wire-first: trees over the in-range wire domain encoded by the reference codec with explicit defaults and "
           "unknown tagged fields at every nesting level, every presence pattern of each class's own tags; kio must "
           "decode to exactly the wire values; plus mutation-derived inputs that the strict reference decoder accepts as conforming; failed calls of the "
           "same class are interleaved; distinct = distinct (class, wire bytes) non-trivial",
    "C05": "wire-first canonical encodings biased to lossy-prone values; encode(decode(b)) == b and idempotence "
           "(also on non-canonical conforming inputs); distinct = distinct (class, wire bytes) non-trivial",
}
WORKERS = {"C01": "c01_worker", "C02": "c02_worker", "C03": "c03_worker", "C05": "c05_worker"}


def run(prop: str, tier_: str) -> int:
    res = Result(prop, LEVEL, tier_)
    errs = refcodec.self_test()
    if errs:
        res.inconclusive_because("reference codec self-test failed: " + "; ".join(errs[:3]))
    res.assumptions += [
        "reference codec = my reading of the Kafka protocol guide, KIP-482 and KIP-893 (hand-derived vectors self-tested each run)",
        "CPython 3.12 stdlib (struct, datetime, dataclasses)",
    ]
    shard.run(res, f"kv.checks.codec:{WORKERS[prop]}", timeout=900 if tier_ == "quick" else 5400)
    c = res.counters
    floor_ok = c.get("classes", 0) >= 1600 and c.get("cases", 0) > 0
    if prop == "C03":
        floor_ok = floor_ok and res.coverage.get("unknown_tags_injected", 0) > 0 and res.coverage.get("explicit_default_tags_sent", 0) > 0
    if prop == "C02":
        floor_ok = floor_ok and c.get("derived_cases", 0) > 0
    if prop == "C01" and not c.get("cases_with_tail"):
        floor_ok = False
    return res.finish(c.get("cases", 0) + c.get("noncanonical_cases", 0) + c.get("mutation_derived_conforming", 0),
                      int(res.coverage.get("distinct_nontrivial_encodings", 0)), RULES[prop], floor_ok)


def replay(prop: str, path: str) -> int:
    doc = common.load_replay(path)
    case = doc["case"]
    res = Result(prop, LEVEL, doc.get("tier", "quick"))
    cls = walk.resolve(case["class"])
    tree = case["tree"]
    if prop == "C02" and case.get("derived"):
        dv = case["derived"]
        cls = derive_class(walk.resolve(dv["base"]), {a: b for a, b in dv["tag_map"]}, dv["reversed"])
    spec = describe.spec_from_class(cls)
    print(f"replay {prop}: {case['class']} ({doc['key']})")
    if prop == "C01":
        c01_case(res, cls, spec, tree, case.get("tail", b""))
    elif prop == "C02":
        _c02_case(res, cls, spec, tree, set(), {}, label=case.get("label"), derived=case.get("derived"))
    elif prop == "C03":
        c03_case(res, cls, spec, tree, case.get("tail", b""))
    else:
        wire = case.get("wire") or refcodec.encode_bytes(spec, tree)
        canonical = wire == refcodec.encode_bytes(spec, _stripped(tree))
        _c05_case(res, cls, spec, wire, tree, canonical=canonical)
    return common.finish_replay(res)


def _stripped(tree: dict) -> dict:
    import copy

    t = copy.deepcopy(tree)
    _strip_extras(t)
    return t
