"""Reference Kafka codec, written from the protocol guide / KIP-482 / KIP-893.

Works on neutral trees (see describe.py).  Never imports kio.serial or kio.records.
``encode`` returns the bytes and a *layout map*: a list of ``(offset, length, role, path)``
that says what every byte of the encoding is, so that a byte mismatch can be attributed
and so that C06/C10 can aim truncations and mutations at length prefixes, tags, markers.

Extras for wire-first generation (C03): a struct's tree may carry two reserved keys
  "$explicit": iterable of tagged field names to send even though they hold the default
  "$unknown":  list of (tag, payload bytes) of tagged fields the schema does not know
Unknown and known tags are merged in ascending tag order, as the protocol requires.
"""
from __future__ import annotations

import struct as _struct

from .describe import FieldSpec, StructSpec

RESERVED = ("$explicit", "$unknown")


class RefCodecError(Exception):
    pass


# ---------------------------------------------------------------------------------------
# primitives


def uvarint(n: int) -> bytes:
    if n < 0:
        raise RefCodecError(f"uvarint of negative {n}")
    out = bytearray()
    while True:
        b = n & 0x7F
        n >>= 7
        if n:
            out.append(b | 0x80)
        else:
            out.append(b)
            return bytes(out)


def zigzag(n: int, bits: int) -> int:
    return (n << 1) ^ (n >> (bits - 1))


def unzigzag(u: int) -> int:
    return (u >> 1) ^ -(u & 1)


def svarint(n: int) -> bytes:
    return uvarint(zigzag(n, 32) & 0xFFFFFFFF)


def svarlong(n: int) -> bytes:
    return uvarint(zigzag(n, 64) & 0xFFFFFFFFFFFFFFFF)


def read_uvarint(data: bytes, pos: int, max_bytes: int = 5) -> tuple[int, int]:
    """Reference decoder: returns (value, new_pos). Raises EOFError / ValueError."""
    result = 0
    for i in range(max_bytes):
        if pos >= len(data):
            raise EOFError("varint truncated")
        b = data[pos]
        pos += 1
        result |= (b & 0x7F) << (7 * i)
        if not b & 0x80:
            return result, pos
    raise ValueError("varint too long")


INT_WIDTH = {
    "int8": (1, True), "int16": (2, True), "int32": (4, True), "int64": (8, True),
    "uint8": (1, False), "uint16": (2, False), "uint32": (4, False), "uint64": (8, False),
    "error_code": (2, True), "timedelta_i32": (4, True), "timedelta_i64": (8, True), "datetime_i64": (8, True),
}


def int_range(ktype: str) -> tuple[int, int]:
    w, signed = INT_WIDTH[ktype]
    bits = 8 * w
    return (-(1 << (bits - 1)), (1 << (bits - 1)) - 1) if signed else (0, (1 << bits) - 1)


# ---------------------------------------------------------------------------------------
# encoder with layout


class Enc:
    def __init__(self) -> None:
        self.buf = bytearray()
        self.layout: list[tuple[int, int, str, str]] = []

    def put(self, data: bytes, role: str, path: str) -> None:
        self.layout.append((len(self.buf), len(data), role, path))
        self.buf += data

    def sub(self) -> "Enc":
        return Enc()

    def splice(self, other: "Enc") -> None:
        base = len(self.buf)
        for off, ln, role, path in other.layout:
            self.layout.append((base + off, ln, role, path))
        self.buf += other.buf


def _enc_prim(e: Enc, fs: FieldSpec, flexible: bool, v: object, path: str, nullable: bool) -> None:
    k = fs.ktype
    if k in INT_WIDTH:
        w, signed = INT_WIDTH[k]
        if v is None:
            if k == "datetime_i64" and nullable:
                v = -1
            else:
                raise RefCodecError(f"{path}: null for non-nullable {k}")
        if isinstance(v, bool) or not isinstance(v, int):
            raise RefCodecError(f"{path}: {v!r} for {k}")
        try:
            e.put(int(v).to_bytes(w, "big", signed=signed), "fixed", path)
        except OverflowError as exc:
            raise RefCodecError(f"{path}: {v} out of range for {k}") from exc
        return
    if k == "float64":
        e.put(_struct.pack(">d", v), "fixed", path)
        return
    if k == "bool":
        if not isinstance(v, bool):
            raise RefCodecError(f"{path}: {v!r} for bool")
        e.put(b"\x01" if v else b"\x00", "fixed", path)
        return
    if k == "uuid":
        if v is None:
            e.put(b"\x00" * 16, "uuid", path)
        else:
            if len(v) != 16:
                raise RefCodecError(f"{path}: uuid of {len(v)} bytes")
            e.put(bytes(v), "uuid", path)
        return
    if k in ("string", "bytes", "records"):
        if v is None and not nullable:
            raise RefCodecError(f"{path}: null for non-nullable {k}")
        if k == "string":
            if v is not None and not isinstance(v, str):
                raise RefCodecError(f"{path}: {type(v).__name__} for string")
            raw = None if v is None else v.encode("utf-8")
        else:
            if v is not None and not isinstance(v, (bytes, bytearray)):
                raise RefCodecError(f"{path}: {type(v).__name__} for {k}")
            raw = None if v is None else bytes(v)
        compact = flexible and not fs.legacy_string
        if compact:
            if raw is None:
                e.put(uvarint(0), "clen", path)
            else:
                e.put(uvarint(len(raw) + 1), "clen", path)
                e.put(raw, "payload", path)
        elif k == "string":
            if raw is None:
                e.put((-1).to_bytes(2, "big", signed=True), "len", path)
            else:
                if len(raw) > 0x7FFF:
                    raise RefCodecError(f"{path}: legacy string of {len(raw)} bytes")
                e.put(len(raw).to_bytes(2, "big", signed=True), "len", path)
                e.put(raw, "payload", path)
        else:
            if raw is None:
                e.put((-1).to_bytes(4, "big", signed=True), "len", path)
            else:
                e.put(len(raw).to_bytes(4, "big", signed=True), "len", path)
                e.put(raw, "payload", path)
        return
    raise RefCodecError(f"{path}: unknown kafka type {k!r}")


def _enc_value(e: Enc, fs: FieldSpec, flexible: bool, v: object, path: str, in_tag: bool) -> None:
    def one(x: object, p: str, nullable: bool) -> None:
        if fs.kind == "struct":
            if x is None:
                raise RefCodecError(f"{p}: null struct where none allowed")
            _enc_struct(e, fs.struct, x, p)
        else:
            _enc_prim(e, fs, flexible, x, p, nullable)

    if fs.array:
        if v is None:
            if not fs.nullable:
                raise RefCodecError(f"{path}: null for non-nullable array")
            if flexible:
                e.put(uvarint(0), "calen", path)
            else:
                e.put((-1).to_bytes(4, "big", signed=True), "alen", path)
            return
        if flexible:
            e.put(uvarint(len(v) + 1), "calen", path)
        else:
            e.put(len(v).to_bytes(4, "big", signed=True), "alen", path)
        for i, x in enumerate(v):
            one(x, f"{path}[{i}]", fs.item_nullable or fs.ktype == "uuid")
        return
    if fs.kind == "struct":
        # KIP-893: nullable structs carry a one-byte marker (tagged or not).
        if fs.nullable:
            if v is None:
                e.put(b"\xff", "marker", path)
                return
            e.put(b"\x01", "marker", path)
        one(v, path, False)
        return
    one(v, path, fs.nullable or fs.ktype == "uuid")


def trees_equal(a: object, b: object) -> bool:
    """Python ``==`` semantics on trees, except that reserved keys are ignored."""
    if isinstance(a, dict) and isinstance(b, dict):
        ka = [k for k in a if k not in RESERVED]
        kb = [k for k in b if k not in RESERVED]
        return set(ka) == set(kb) and all(trees_equal(a[k], b[k]) for k in ka)
    if isinstance(a, list) and isinstance(b, list):
        return len(a) == len(b) and all(trees_equal(x, y) for x, y in zip(a, b))
    if isinstance(a, (dict, list)) or isinstance(b, (dict, list)):
        return False
    return a == b and (a is None) == (b is None)


def _enc_struct(e: Enc, spec: StructSpec, tree: dict, path: str) -> None:
    flexible = spec.flexible
    for fs in spec.fields:
        if fs.tag is not None:
            continue
        if fs.name not in tree:
            raise RefCodecError(f"{path}.{fs.name}: missing in tree")
        _enc_value(e, fs, flexible, tree[fs.name], f"{path}.{fs.name}", False)
    tagged = spec.tagged
    if not flexible:
        if tagged:
            raise RefCodecError(f"{path}: tagged fields on a non-flexible struct")
        if tree.get("$unknown"):
            raise RefCodecError(f"{path}: unknown tags on a non-flexible struct")
        return
    explicit = set(tree.get("$explicit", ()))
    items: list[tuple[int, Enc | bytes, str]] = []
    for fs in tagged:
        v = tree[fs.name]
        if trees_equal(v, fs.effective_default()) and fs.name not in explicit:
            continue
        body = e.sub()
        _enc_value(body, fs, flexible, v, f"{path}.{fs.name}", True)
        items.append((fs.tag, body, f"{path}.{fs.name}"))
    for tag, payload in tree.get("$unknown", ()):
        items.append((tag, bytes(payload), f"{path}.<unknown tag {tag}>"))
    tags = [t for t, _, _ in items]
    if len(set(tags)) != len(tags):
        raise RefCodecError(f"{path}: duplicate tags {tags}")
    items.sort(key=lambda it: it[0])
    e.put(uvarint(len(items)), "ntags", path)
    for tag, body, p in items:
        e.put(uvarint(tag), "tag", p)
        if isinstance(body, bytes):
            e.put(uvarint(len(body)), "size", p)
            e.put(body, "unknown_payload", p)
        else:
            e.put(uvarint(len(body.buf)), "size", p)
            e.splice(body)


def encode(spec: StructSpec, tree: dict) -> tuple[bytes, list[tuple[int, int, str, str]]]:
    e = Enc()
    _enc_struct(e, spec, tree, spec.name)
    return bytes(e.buf), e.layout


def encode_bytes(spec: StructSpec, tree: dict) -> bytes:
    return encode(spec, tree)[0]


def role_at(layout: list[tuple[int, int, str, str]], offset: int) -> tuple[str, str]:
    for off, ln, role, path in layout:
        if off <= offset < off + ln:
            return role, path
    return "end", ""


def first_diff(a: bytes, b: bytes) -> int:
    n = min(len(a), len(b))
    for i in range(n):
        if a[i] != b[i]:
            return i
    return n


# ---------------------------------------------------------------------------------------
# reference decoder (strict: accepts exactly what a conforming peer may send)


class NonConforming(Exception):
    """The bytes are not a conforming encoding for the spec (or are truncated)."""


class Dec:
    def __init__(self, data: bytes) -> None:
        self.data = data
        self.pos = 0

    def take(self, n: int) -> bytes:
        if n < 0 or self.pos + n > len(self.data):
            raise NonConforming("truncated")
        out = self.data[self.pos:self.pos + n]
        self.pos += n
        return out

    def uvarint(self) -> int:
        start = self.pos
        try:
            v, self.pos = read_uvarint(self.data, self.pos, 5)
        except (EOFError, ValueError) as exc:
            raise NonConforming(str(exc)) from exc
        if uvarint(v) != self.data[start:self.pos]:
            raise NonConforming("non-minimal varint")
        return v


def _dec_prim(d: Dec, fs: FieldSpec, flexible: bool, nullable: bool) -> object:
    k = fs.ktype
    if k in INT_WIDTH:
        w, signed = INT_WIDTH[k]
        v = int.from_bytes(d.take(w), "big", signed=signed)
        if k == "datetime_i64" and nullable and v == -1:
            return None
        return v
    if k == "float64":
        return _struct.unpack(">d", d.take(8))[0]
    if k == "bool":
        b = d.take(1)[0]
        if b > 1:
            raise NonConforming("bool byte not 0/1")
        return bool(b)
    if k == "uuid":
        raw = d.take(16)
        return None if raw == b"\x00" * 16 else raw
    if k in ("string", "bytes", "records"):
        compact = flexible and not fs.legacy_string
        if compact:
            n = d.uvarint() - 1
        elif k == "string":
            n = int.from_bytes(d.take(2), "big", signed=True)
        else:
            n = int.from_bytes(d.take(4), "big", signed=True)
        if n == -1:
            if not nullable:
                raise NonConforming("null for non-nullable")
            return None
        if n < 0:
            raise NonConforming("negative length")
        raw = d.take(n)
        if k == "string":
            try:
                return raw.decode("utf-8")
            except UnicodeDecodeError as exc:
                raise NonConforming("invalid utf-8") from exc
        return raw
    raise RefCodecError(f"unknown kafka type {k!r}")


def _dec_value(d: Dec, fs: FieldSpec, flexible: bool) -> object:
    def one(nullable: bool) -> object:
        if fs.kind == "struct":
            return _dec_struct(d, fs.struct)
        return _dec_prim(d, fs, flexible, nullable)

    if fs.array:
        n = (d.uvarint() - 1) if flexible else int.from_bytes(d.take(4), "big", signed=True)
        if n == -1:
            if not fs.nullable:
                raise NonConforming("null for non-nullable array")
            return None
        if n < 0:
            raise NonConforming("negative array length")
        if n > len(d.data) - d.pos and n > 0 and _min_size(fs, flexible) > 0:
            raise NonConforming("array longer than remaining input")
        return [one(fs.item_nullable or fs.ktype == "uuid") for _ in range(n)]
    if fs.kind == "struct" and fs.nullable:
        m = d.take(1)[0]
        if m == 0xFF:
            return None
        if m != 1:
            raise NonConforming("struct marker not 1/-1")
        return one(False)
    return one(fs.nullable or fs.ktype == "uuid")


def _min_size(fs: FieldSpec, flexible: bool) -> int:
    if fs.kind == "struct":
        return 1 if (fs.struct.flexible or fs.struct.fields) else 0
    return 1


def _dec_struct(d: Dec, spec: StructSpec) -> dict:
    tree: dict = {}
    for fs in spec.fields:
        if fs.tag is None:
            tree[fs.name] = _dec_value(d, fs, spec.flexible)
    if not spec.flexible:
        return tree
    by_tag = {fs.tag: fs for fs in spec.tagged}
    n = d.uvarint()
    prev = -1
    unknown = []
    explicit = []
    for _ in range(n):
        tag = d.uvarint()
        if tag <= prev:
            raise NonConforming("tags not strictly ascending")
        prev = tag
        size = d.uvarint()
        body = d.take(size)
        fs = by_tag.get(tag)
        if fs is None:
            unknown.append((tag, body))
            continue
        sub = Dec(body)
        tree[fs.name] = _dec_value(sub, fs, spec.flexible)
        if sub.pos != len(body):
            raise NonConforming("tagged field size does not match its content")
        if trees_equal(tree[fs.name], fs.effective_default()):
            explicit.append(fs.name)
    for fs in spec.tagged:
        if fs.name not in tree:
            tree[fs.name] = fs.effective_default()
    if unknown:
        tree["$unknown"] = unknown
    if explicit:
        tree["$explicit"] = explicit
    return tree


def decode(spec: StructSpec, data: bytes) -> tuple[dict, int]:
    """Strict decode; returns (tree, bytes consumed). Raises NonConforming."""
    d = Dec(data)
    tree = _dec_struct(d, spec)
    return tree, d.pos


# ---------------------------------------------------------------------------------------
# self-test: hand-derived vectors.  A failure means the *oracle* is broken -> inconclusive.


def self_test() -> list[str]:
    errs: list[str] = []

    def eq(name: str, got: bytes, want: bytes) -> None:
        if got != want:
            errs.append(f"{name}: got {got.hex()} want {want.hex()}")

    for n, want in [(0, "00"), (1, "01"), (127, "7f"), (128, "8001"), (300, "ac02"), (16383, "ff7f"), (16384, "808001"),
                    (2**31 - 1, "ffffffff07"), (2**32 - 1, "ffffffff0f")]:
        eq(f"uvarint({n})", uvarint(n), bytes.fromhex(want))
    for n, want in [(0, "00"), (-1, "01"), (1, "02"), (-2, "03"), (63, "7e"), (-64, "7f"), (64, "8001"),
                    (2**31 - 1, "feffffff0f"), (-(2**31), "ffffffff0f")]:
        eq(f"svarint({n})", svarint(n), bytes.fromhex(want))
    for n, want in [(2**63 - 1, "feffffffffffffffff01"), (-(2**63), "ffffffffffffffffff01"), (-1, "01")]:
        eq(f"svarlong({n})", svarlong(n), bytes.fromhex(want))
    for n in (0, 1, -1, 2**31 - 1, -(2**31), 12345, -54321):
        if unzigzag(zigzag(n, 32) & 0xFFFFFFFF) != n:
            errs.append(f"zigzag32 {n}")

    def F(name, ktype, **kw):  # noqa: N802
        d = dict(kind="prim", ktype=ktype, nullable=False, array=False, item_nullable=False, tag=None,
                 default=__import__("kv.describe", fromlist=["NO_DEFAULT"]).NO_DEFAULT, struct=None)
        d.update(kw)
        return FieldSpec(name=name, **d)

    # Request header v1 (non-flexible): api key 3, version 12, correlation 7, client id "ab"
    hdr1 = StructSpec("RequestHeader", False, [F("request_api_key", "int16"), F("request_api_version", "int16"),
                                               F("correlation_id", "int32"), F("client_id", "string", nullable=True, legacy_string=True)])
    eq("request header v1", encode_bytes(hdr1, dict(request_api_key=3, request_api_version=12, correlation_id=7, client_id="ab")),
       bytes.fromhex("0003" "000c" "00000007" "0002" "6162"))
    # Request header v2 (flexible): client id stays legacy nullable string, then empty tagged section
    hdr2 = StructSpec("RequestHeader", True, hdr1.fields)
    eq("request header v2 null client", encode_bytes(hdr2, dict(request_api_key=18, request_api_version=3, correlation_id=1, client_id=None)),
       bytes.fromhex("0012" "0003" "00000001" "ffff" "00"))
    eq("request header v2", encode_bytes(hdr2, dict(request_api_key=18, request_api_version=3, correlation_id=1, client_id="x")),
       bytes.fromhex("0012" "0003" "00000001" "0001" "78" "00"))
    # ApiVersionsRequest v3: compact strings + empty tagged section
    av3 = StructSpec("ApiVersionsRequest", True, [F("client_software_name", "string"), F("client_software_version", "string")])
    eq("api versions v3", encode_bytes(av3, dict(client_software_name="kio", client_software_version="1")),
       bytes.fromhex("04" "6b696f" "02" "31" "00"))
    # flexible struct with two tagged fields declared out of order (tags 1 and 0) + compact nullable string
    inner = StructSpec("Inner", True, [F("a", "int32", default=-1), F("b", "int64", default=-1)])
    flex = StructSpec("Flex", True, [
        F("late", "int16", tag=1, default=0),
        F("s", "string", nullable=True),
        F("early", "string", nullable=True, tag=0, default=None),
        FieldSpec("st", "struct", None, False, False, False, 2, {"a": -1, "b": -1}, inner),
        F("arr", "int32", array=True),
    ])
    eq("flex all default", encode_bytes(flex, dict(late=0, s=None, early=None, st={"a": -1, "b": -1}, arr=[])),
       bytes.fromhex("00" "01" "00"))
    eq("flex tags sorted", encode_bytes(flex, dict(late=5, s="é", early="hi", st={"a": 1, "b": -1}, arr=[1, 2])),
       bytes.fromhex("03c3a9" "03" "00000001" "00000002"
                     "03" "00" "03" "036869" "01" "02" "0005" "02" "0d" "00000001" "ffffffffffffffff" "00"))
    # unknown tag merged in order, explicit default sent
    eq("flex unknown+explicit", encode_bytes(flex, {"late": 0, "s": "", "early": None, "st": {"a": -1, "b": -1}, "arr": None if False else [],
                                                     "$explicit": ["late"], "$unknown": [(0x80, b"\x01\x02")]}),
       bytes.fromhex("01" "01" "02" "01" "02" "0000" "8001" "02" "0102"))
    # legacy (non-flexible) nullable forms and nullable struct marker
    leg = StructSpec("Leg", False, [
        F("s", "string", nullable=True), F("b", "bytes", nullable=True), F("arr", "string", array=True, nullable=True),
        FieldSpec("st", "struct", None, True, False, False, None, NO_DEFAULT_(), StructSpec("N", False, [F("x", "int8")])),
        F("u", "uuid", nullable=True), F("t", "datetime_i64", nullable=True), F("f", "float64"), F("ok", "bool"),
    ])
    eq("legacy nulls", encode_bytes(leg, dict(s=None, b=None, arr=None, st=None, u=None, t=None, f=1.0, ok=True)),
       bytes.fromhex("ffff" "ffffffff" "ffffffff" "ff" + "00" * 16 + "ffffffffffffffff" "3ff0000000000000" "01"))
    eq("legacy values", encode_bytes(leg, dict(s="a", b=b"\x00", arr=["", "z"], st={"x": -2}, u=bytes(range(1, 17)), t=1503229838908, f=-0.0, ok=False)),
       bytes.fromhex("0001" "61" "00000001" "00" "00000002" "0000" "0001" "7a" "01" "fe" "0102030405060708090a0b0c0d0e0f10"
                     "0000015dff7b063c" "8000000000000000" "00"))
    # decoder round trip on the vectors
    for spec, tree in [(flex, dict(late=5, s="é", early="hi", st={"a": 1, "b": -1}, arr=[1, 2])),
                       (leg, dict(s="a", b=b"\x00", arr=["", "z"], st={"x": -2}, u=bytes(range(1, 17)), t=1503229838908, f=2.5, ok=False))]:
        raw = encode_bytes(spec, tree)
        try:
            back, used = decode(spec, raw + b"zz")
            if used != len(raw) or not trees_equal(back, tree):
                errs.append(f"decode round trip {spec.name}: {back!r}")
        except Exception as exc:  # noqa: BLE001
            errs.append(f"decode {spec.name}: {exc!r}")
    return errs


def NO_DEFAULT_():  # noqa: N802
    from .describe import NO_DEFAULT

    return NO_DEFAULT
