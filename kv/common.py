"""Shared plumbing: paths, seeds, JSON-safe dumping, evidence and replay files, verdicts.

Every check imports this first: it puts the *working tree* of the repository
(``$KIO_REPO``, default ``/repo``) in front of ``sys.path`` so that what runs is the code on
disk now, not whatever an installed distribution might point to.
"""
from __future__ import annotations

import hashlib
import json
import math
import os
import pathlib
import random
import struct
import sys
import time

VERIF = pathlib.Path(__file__).resolve().parent.parent
REPO = pathlib.Path(os.environ.get("KIO_REPO", "/repo")).resolve()
REPO_SRC = REPO / "src"
KIO_DIR = str(REPO_SRC / "kio")

if str(REPO_SRC) not in sys.path:
    sys.path.insert(0, str(REPO_SRC))
# The guard for source hooks. No hook exists in the repository (see DESIGN.md), but the
# variable is set so that any future guarded hook would be on when checks run.
os.environ.setdefault("KIO_VERIF", "1")

EXIT_HELD = 0
EXIT_VIOLATED = 1
EXIT_INCONCLUSIVE = 2


def seed() -> int:
    try:
        return int(os.environ.get("VERIF_SEED", "0"))
    except ValueError:
        return 0


def tier(default: str = "quick") -> str:
    t = os.environ.get("VERIF_TIER", default)
    return t if t in ("quick", "thorough") else default


def stable_hash(*parts: object) -> int:
    h = hashlib.sha256(repr(parts).encode()).digest()
    return int.from_bytes(h[:8], "big")


def rng_for(*parts: object) -> random.Random:
    return random.Random(stable_hash(seed(), *parts))


def assert_repo_is_working_tree() -> None:
    import kio

    here = os.path.realpath(os.path.dirname(kio.__file__))
    if here != os.path.realpath(KIO_DIR):
        raise RuntimeError(f"kio imported from {here}, expected {KIO_DIR}")


# ---------------------------------------------------------------------------------------
# JSON-safe dumping of neutral trees and arbitrary observations


def jsonable(o: object, depth: int = 0) -> object:
    if depth > 40:
        return "<deep>"
    if o is None or isinstance(o, (bool, str)):
        return o
    if isinstance(o, int):
        return o if -(2**63) <= o < 2**64 else {"$int": str(o)}
    if isinstance(o, float):
        if math.isfinite(o) and (o != 0.0 or math.copysign(1.0, o) > 0):
            return o
        return {"$f64": struct.pack(">d", o).hex()}
    if isinstance(o, (bytes, bytearray, memoryview)):
        b = bytes(o)
        if len(b) > 96:
            return {"$b": b[:48].hex() + "..", "len": len(b), "sha": hashlib.sha256(b).hexdigest()[:16]}
        return {"$b": b.hex()}
    if isinstance(o, dict):
        return {str(k): jsonable(v, depth + 1) for k, v in o.items()}
    if isinstance(o, (list, tuple, set, frozenset)):
        seq = list(o)
        if len(seq) > 64:
            return [jsonable(x, depth + 1) for x in seq[:64]] + [f"<+{len(seq) - 64} more>"]
        return [jsonable(x, depth + 1) for x in seq]
    if isinstance(o, type):
        return f"{o.__module__}.{o.__qualname__}"
    r = repr(o)
    return r if len(r) <= 300 else r[:300] + ".."


def full_jsonable(o: object) -> object:
    """Like jsonable but lossless (for replay files): bytes are never shortened."""
    if o is None or isinstance(o, (bool, str)):
        return o
    if isinstance(o, int):
        return o if -(2**63) <= o < 2**64 else {"$int": str(o)}
    if isinstance(o, float):
        return {"$f64": struct.pack(">d", o).hex()}
    if isinstance(o, (bytes, bytearray)):
        return {"$b": bytes(o).hex()}
    if isinstance(o, dict):
        return {"$d": [[full_jsonable(k), full_jsonable(v)] for k, v in o.items()]}
    if isinstance(o, tuple):
        return {"$t": [full_jsonable(x) for x in o]}
    if isinstance(o, (list, set, frozenset)):
        return [full_jsonable(x) for x in o]
    return {"$repr": repr(o)}


def from_full_json(o: object) -> object:
    if isinstance(o, list):
        return [from_full_json(x) for x in o]
    if isinstance(o, dict):
        if "$int" in o:
            return int(o["$int"])
        if "$f64" in o:
            return struct.unpack(">d", bytes.fromhex(o["$f64"]))[0]
        if "$b" in o:
            return bytes.fromhex(o["$b"])
        if "$d" in o:
            return {_hashable(from_full_json(k)): from_full_json(v) for k, v in o["$d"]}
        if "$t" in o:
            return tuple(from_full_json(x) for x in o["$t"])
        if "$repr" in o:
            return o["$repr"]
    return o


def _hashable(k: object) -> object:
    return tuple(k) if isinstance(k, list) else k


# ---------------------------------------------------------------------------------------
# Result of a check run


class Result:
    """Collects what one run of one check observed and turns it into evidence + exit code."""

    def __init__(self, prop: str, level: str, tier_: str) -> None:
        self.prop = prop
        self.level = level
        self.tier = tier_
        self.seed = seed()
        self.t0 = time.time()
        self.violations: list[dict] = []  # each: {"key":..., "replay": path, "summary":...}
        self._viol_keys: set[str] = set()
        self.known: dict[str, int] = {}  # finding id -> times observed
        self.known_summaries: dict[str, str] = {}
        self.inconclusive: list[str] = []
        self.coverage: dict[str, object] = {}
        self.counters: dict[str, int] = {}
        self.samples: list[object] = []
        self.assumptions: list[str] = []

    # -- counting -----------------------------------------------------------------
    def count(self, key: str, n: int = 1) -> None:
        self.counters[key] = self.counters.get(key, 0) + n

    def sample(self, s: object, limit: int = 6) -> None:
        if len(self.samples) < limit:
            self.samples.append(jsonable(s))

    # -- findings -----------------------------------------------------------------
    def violation(self, key: str, summary: str, payload: dict) -> None:
        """Record a violation; one replay file per distinct key."""
        self.count("violations_raw")
        if key in self._viol_keys:
            return
        if len(self.violations) >= 40:  # enough witnesses; the rest is only counted
            self.count("violations_not_written")
            return
        self._viol_keys.add(key)
        path = write_replay(self.prop, key, summary, payload, self.tier)
        self.violations.append({"key": key, "summary": summary, "replay": str(path)})

    def known_finding(self, fid: str, summary: str) -> None:
        self.known[fid] = self.known.get(fid, 0) + 1
        self.known_summaries[fid] = summary

    def known_or_violation(self, fid: str, key: str, summary: str, payload: dict) -> None:
        """A case whose mechanism the check has attributed to finding ``fid``: a KNOWN-FINDING if
        the committed known_findings.json lists it for this property, a VIOLATION otherwise."""
        from . import findings

        if findings.is_known(self.prop, fid):
            self.known_finding(fid, findings.summary(fid))
        else:
            self.violation(key, summary, payload)

    def inconclusive_because(self, reason: str) -> None:
        if reason not in self.inconclusive:
            self.inconclusive.append(reason)

    # -- merging worker results ----------------------------------------------------
    def to_wire(self) -> dict:
        return {
            "violations": self.violations,
            "known": self.known,
            "known_summaries": self.known_summaries,
            "inconclusive": self.inconclusive,
            "coverage": self.coverage,
            "counters": self.counters,
            "samples": self.samples,
        }

    def merge_wire(self, w: dict) -> None:
        for v in w.get("violations", []):
            if v["key"] not in self._viol_keys:
                self._viol_keys.add(v["key"])
                self.violations.append(v)
        for k, n in w.get("known", {}).items():
            self.known[k] = self.known.get(k, 0) + n
        self.known_summaries.update(w.get("known_summaries", {}))
        for r in w.get("inconclusive", []):
            self.inconclusive_because(r)
        for k, n in w.get("counters", {}).items():
            self.counters[k] = self.counters.get(k, 0) + n
        for s in w.get("samples", []):
            if len(self.samples) < 8:
                self.samples.append(s)
        for k, v in w.get("coverage", {}).items():
            self.coverage[k] = _merge_cov(k, self.coverage.get(k), v)

    # -- finishing -------------------------------------------------------------------
    def finish(self, evaluations: int, distinct_nontrivial: int, rule: str, floor_ok: bool = True) -> int:
        cov = dict(self.coverage)
        cov["evaluations"] = int(evaluations)
        cov["distinct_nontrivial"] = int(distinct_nontrivial)
        cov["rule"] = rule
        cov["samples"] = self.samples or ["<no sample recorded>"]
        cov["counters"] = dict(sorted(self.counters.items()))
        cov["known_findings_observed"] = dict(self.known)
        cov["tree_checked"] = tree_identity()
        if self.inconclusive:
            cov["inconclusive_reasons"] = list(self.inconclusive)
        if evaluations <= 0 or distinct_nontrivial < 2 or not floor_ok:
            self.inconclusive_because(
                f"too little observed (evaluations={evaluations}, distinct_nontrivial={distinct_nontrivial}, floor_ok={floor_ok})"
            )
            cov["inconclusive_reasons"] = list(self.inconclusive)
        ev = {
            "property_id": self.prop,
            "tier": self.tier,
            "seed": self.seed,
            "level": self.level,
            "coverage": cov,
            "assumptions": self.assumptions,
            "wall_s": round(time.time() - self.t0, 3),
            "violations": len(self.violations),
        }
        # evidence/ only ever describes runs against /repo itself; a run against a scratch tree (KIO_REPO=..., used to try seeded
        # changes) leaves its report under the git-ignored .scratch/
        out = (VERIF / "evidence" if REPO == pathlib.Path("/repo") else VERIF / ".scratch" / "evidence") / f"{self.prop}.json"
        out.parent.mkdir(parents=True, exist_ok=True)
        tmp = out.with_suffix(".json.tmp")
        tmp.write_text(json.dumps(ev, indent=1, sort_keys=False) + "\n")
        os.replace(tmp, out)

        for fid, n in sorted(self.known.items()):
            print(f"KNOWN-FINDING: property={self.prop} {fid}: {self.known_summaries.get(fid, '')} (observed {n}x)")
        if self.violations:
            for v in self.violations:
                print(f"VIOLATION property={self.prop} replay={v['replay']}")
                print(f"  {v['summary'][:400]}")
            print(f"{self.prop}: VIOLATED ({len(self.violations)} distinct, {self.counters.get('violations_raw', 0)} raw) "
                  f"after {evaluations} evaluations in {ev['wall_s']}s")
            return EXIT_VIOLATED
        if self.inconclusive:
            for r in self.inconclusive:
                print(f"INCONCLUSIVE property={self.prop} reason={r}")
            return EXIT_INCONCLUSIVE
        print(f"{self.prop}: held on {evaluations} evaluations ({distinct_nontrivial} distinct non-trivial) "
              f"tier={self.tier} seed={self.seed} in {ev['wall_s']}s")
        return EXIT_HELD


def tree_identity() -> dict:
    """Which tree the run executed: path, HEAD and whether the working tree differs from HEAD."""
    import subprocess

    def git(*a: str) -> str:
        try:
            return subprocess.run(["git", "-C", str(REPO), *a], capture_output=True, text=True, timeout=30).stdout.strip()
        except Exception:  # noqa: BLE001
            return "?"

    return {"path": str(REPO), "head": git("rev-parse", "--short", "HEAD"), "working_tree_modified": bool(git("status", "--porcelain", "--", "src", "codegen"))}


def _merge_cov(key: str, cur: object, v: object) -> object:
    """Merge one worker's coverage value into the accumulated one (sum ints, max for max_*,
    and-ing booleans, union lists, recurse into dicts)."""
    if cur is None:
        return v
    if isinstance(v, bool) and isinstance(cur, bool):
        return cur and v
    if isinstance(v, (int, float)) and isinstance(cur, (int, float)) and not isinstance(v, bool):
        return max(cur, v) if key.startswith("max_") else cur + v
    if isinstance(v, dict) and isinstance(cur, dict):
        out = dict(cur)
        for kk, vv in v.items():
            out[kk] = _merge_cov(kk, out.get(kk), vv)
        return out
    if isinstance(v, list) and isinstance(cur, list):
        out_l = list(cur)
        for x in v:
            if x not in out_l:
                out_l.append(x)
        return out_l
    return v


def write_replay(prop: str, key: str, summary: str, payload: dict, tier_: str) -> pathlib.Path:
    d = VERIF / "replays"
    d.mkdir(exist_ok=True)
    digest = hashlib.sha256((prop + "|" + key).encode()).hexdigest()[:12]
    path = d / f"{prop}-{digest}.json"
    doc = {
        "property": prop,
        "key": key,
        "summary": summary,
        "seed": seed(),
        "tier": tier_,
        "case": full_jsonable(payload),
        "readable": jsonable(payload),
    }
    path.write_text(json.dumps(doc, indent=1) + "\n")
    return path


def load_replay(path: str) -> dict:
    doc = json.loads(pathlib.Path(path).read_text())
    doc["case"] = from_full_json(doc["case"])
    return doc


def replay_by_rerun(prop: str, path: str, run_fn) -> int:  # noqa: ANN001
    """Replay for checks whose cases are a deterministic function of (seed, tier): re-run the check with the recorded
    seed and tier and report whether the recorded violation key reappears."""
    doc = load_replay(path)
    os.environ["VERIF_SEED"] = str(doc.get("seed", 0))
    os.environ["VERIF_TIER"] = doc.get("tier", "quick")
    print(f"replay {prop}: re-running the whole check with seed={doc.get('seed')} tier={doc.get('tier')} (looking for key {doc.get('key')!r})")
    rc = run_fn(prop, doc.get("tier", "quick"))
    return rc


def finish_replay(res: "Result") -> int:
    """Common tail of a single-case replay."""
    if res.violations:
        for v in res.violations:
            print(f"VIOLATION property={res.prop} replay={v['replay']}")
            print(f"  {v['summary'][:600]}")
        return EXIT_VIOLATED
    for fid, n in res.known.items():
        print(f"KNOWN-FINDING: property={res.prop} {fid}: {res.known_summaries.get(fid, '')} (observed {n}x)")
    if res.inconclusive:
        for r in res.inconclusive:
            print(f"INCONCLUSIVE property={res.prop} reason={r}")
        return EXIT_INCONCLUSIVE
    print(f"{res.prop}: replayed case shows no violation on the current tree")
    return EXIT_HELD


def cold(factory) -> bool:  # noqa: ANN001
    """Empty the memo of kio's reader/writer factory where it has one (functools.cache today).  A factory that memoises differently cannot be
    emptied from outside: the caller then works on whatever is cached - cold-cache behaviour is observed in fresh interpreters anyway."""
    clear = getattr(factory, "cache_clear", None)
    if clear is None:
        return False
    clear()
    return True
