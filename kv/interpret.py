"""Independent interpreter of the upstream Kafka message-definition JSON format.

``interpret(defn, version)`` reads a definition for one version and returns what the
generated module must contain: classes (as describe.StructSpec with cls=None), their order
is irrelevant, plus module path, flexibility, API key and header class.  Own version-range
parser, own snake-casing, own header rule; shares nothing with codegen/.
"""
from __future__ import annotations

import builtins
import dataclasses
import re

from .describe import NO_DEFAULT, FieldSpec, StructSpec

TIMEDELTA_NAMES = {"timeoutMs", "TimeoutMs", "ThrottleTimeMs", "MaxWaitMs", "SessionLifetimeMs", "TransactionTimeoutMs", "MaxLifetimeMs", "SessionTimeoutMs",
                   "RebalanceTimeoutMs", "ExpiryTimePeriodMs", "RenewPeriodMs", "RetentionTimeMs", "HeartbeatIntervalMs", "PushIntervalMs"}
DATETIME_NAMES = {"IssueTimestampMs", "ExpiryTimestampMs", "MaxTimestampMs", "TransactionStartTimeMs", "LogAppendTimeMs"}
ERROR_CODE_NAMES = {"ErrorCode", "PartitionErrorCode"}
PRIMS = ("bool", "int8", "int16", "int32", "int64", "uint16", "uint32", "uint64", "float64", "string", "bytes", "uuid", "records")
NUMERIC = ("int8", "int16", "int32", "int64", "uint16", "uint32", "uint64", "float64")
ENTITY_TYPE_BASE = {"brokerId": "int32", "producerId": "int64", "groupId": "string", "topicName": "string", "transactionalId": "string"}
_BUILTINS = frozenset(dir(builtins))


class Unsupported(Exception):
    """The definition uses something outside the supported subset (DESIGN.md 5.10)."""


def parse_range(s: str) -> tuple[int, float] | None:
    """'N', 'N-M', 'N+' or 'none' -> (lo, hi) inclusive, None for the empty range."""
    s = s.strip()
    if s == "none":
        return None
    if s.endswith("+"):
        return int(s[:-1]), float("inf")
    if "-" in s:
        a, b = s.split("-", 1)
        return int(a), int(b)
    return int(s), int(s)


def in_range(s: str | None, v: int) -> bool:
    if s is None:
        return False
    r = parse_range(s)
    return r is not None and r[0] <= v <= r[1]


def snake(name: str) -> str:
    s = re.sub(r"(?<=[a-z])(?=[A-Z])|(?<=[A-Z])(?=[A-Z][a-z])|(?<=[0-9])(?=[A-Z][a-z])", "_", name).lower()
    return s + "_" if s in _BUILTINS else s


def api_name(defn: dict) -> str:
    s = snake(defn["name"])
    for suffix in ("_response", "_request"):
        if s.endswith(suffix):
            s = s[: -len(suffix)]
    return s


def header_for(defn: dict, version: int) -> str | None:
    flexible = in_range(defn["flexibleVersions"], version)
    if defn["type"] == "request":
        if defn["apiKey"] == 7 and version == 0:
            return "kio.schema.request_header.v0.header:RequestHeader"
        return f"kio.schema.request_header.v{2 if flexible else 1}.header:RequestHeader"
    if defn["type"] == "response":
        if defn["apiKey"] == 18:
            return "kio.schema.response_header.v0.header:ResponseHeader"
        return f"kio.schema.response_header.v{1 if flexible else 0}.header:ResponseHeader"
    return None


def parse_default(ktype: str, raw: object, nullable: bool) -> object:
    """Definition default (any accepted spelling) -> neutral tree value."""
    if raw is None:
        return NO_DEFAULT
    if isinstance(raw, str) and raw == "null":
        return None
    if ktype in ("int8", "int16", "int32", "int64", "uint16", "uint32", "uint64", "error_code", "timedelta_i32", "timedelta_i64"):
        if isinstance(raw, bool):
            raise Unsupported("bool default for an int")
        return int(raw, 0) if isinstance(raw, str) else int(raw)
    if ktype == "datetime_i64":
        v = int(raw, 0) if isinstance(raw, str) else int(raw)
        if v == -1:
            return None
        raise Unsupported("datetime default other than -1")
    if ktype == "bool":
        if isinstance(raw, bool):
            return raw
        if str(raw).lower() in ("true", "false"):
            return str(raw).lower() == "true"
        raise Unsupported(f"bool default {raw!r}")
    if ktype == "float64":
        return float(raw)
    if ktype == "string":
        return str(raw)
    raise Unsupported(f"default {raw!r} for {ktype}")


@dataclasses.dataclass
class ModuleExpectation:
    module: str  # kio.schema.<api>.v<N>.<type>
    api: str
    version: int
    type: str
    flexible: bool
    api_key: int | None
    header: str | None
    top: str
    classes: dict[str, StructSpec]  # by class name
    custom_types: dict[str, str]  # field path -> expected custom type name


class _Ctx:
    def __init__(self, defn: dict, version: int) -> None:
        self.defn = defn
        self.version = version
        self.flexible = in_range(defn["flexibleVersions"], version)
        self.common = {c["name"]: c for c in defn.get("commonStructs", [])}
        self.classes: dict[str, StructSpec] = {}
        self.custom: dict[str, str] = {}

    def struct(self, name: str, fields: list[dict]) -> StructSpec:
        if name in self.classes:
            return self.classes[name]
        spec = StructSpec(name=name, flexible=self.flexible, fields=[], cls=None, version=self.version)
        self.classes[name] = spec
        seen_tags = set()
        for f in fields:
            versions = f.get("versions", f.get("taggedVersions"))
            if versions is None:
                raise Unsupported("field without versions")
            if not in_range(versions, self.version):
                continue
            fs = self.field(name, f)
            if fs.tag is not None:
                if not self.flexible:
                    raise Unsupported("tagged field in a non-flexible version")
                if fs.tag in seen_tags:
                    raise Unsupported("duplicate tag")
                seen_tags.add(fs.tag)
            spec.fields.append(fs)
        if spec.name == "RequestHeader":
            for fs in spec.fields:
                if fs.name == "client_id":
                    fs.legacy_string = True
        return spec

    def field(self, owner: str, f: dict) -> FieldSpec:
        v = self.version
        raw_name = f["name"]
        typ = f["type"]
        array = typ.startswith("[]")
        base = typ[2:] if array else typ
        tag = f.get("tag") if in_range(f.get("taggedVersions"), v) else None
        if (f.get("tag") is None) != (f.get("taggedVersions") is None):
            raise Unsupported("tag without taggedVersions or vice versa")
        def_nullable = in_range(f.get("nullableVersions"), v)
        ignorable = bool(f.get("ignorable", False))
        raw_default = f.get("default")
        if base in PRIMS:
            ktype = base
            name = raw_name
            if not array:
                if raw_name in ERROR_CODE_NAMES:
                    if base != "int16":
                        raise Unsupported("error code field that is not int16")
                    ktype = "error_code"
                if raw_name in TIMEDELTA_NAMES:
                    if base not in ("int32", "int64"):
                        raise Unsupported("timedelta field of another type")
                    ktype = "timedelta_i32" if base == "int32" else "timedelta_i64"
                    name = raw_name[:-2]
                elif raw_name in DATETIME_NAMES:
                    if base != "int64":
                        raise Unsupported("datetime field of another type")
                    ktype = "datetime_i64"
                    name = raw_name[:-2]
                elif raw_name.endswith("Ms"):
                    raise Unsupported("unlisted ...Ms field")
            if def_nullable and base not in ("string", "bytes", "records"):
                raise Unsupported(f"nullable {base}")
            fs = FieldSpec(name=snake(name), kind="prim", ktype=ktype, nullable=False, array=array, item_nullable=False, tag=tag,
                           default=NO_DEFAULT, struct=None)
            if array:
                fs.nullable = def_nullable
                fs.item_nullable = ktype == "uuid"
                if raw_default not in (None, "null"):
                    raise Unsupported("array default")
                if raw_default == "null":
                    if not def_nullable:
                        raise Unsupported("null default on a non-nullable array")
                    fs.default = None
            else:
                fs.default = parse_default(ktype, raw_default, def_nullable)
                modelled_null = (
                    ktype == "uuid"
                    or (ktype == "datetime_i64" and fs.default is None and raw_default is not None)
                    or (tag is not None and ignorable and raw_default is None and ktype not in NUMERIC + ("error_code", "timedelta_i32", "timedelta_i64") and ktype != "bool")
                )
                fs.nullable = def_nullable or modelled_null
                # kio annotates every non-numeric tagged+ignorable field without default as `| None`, also where the wire has no
                # null (bool, error codes); the default stays the protocol's, so either annotation is accepted there.
                fs.nullable_optional = tag is not None and ignorable and raw_default is None and ktype in ("bool", "error_code")
                if fs.default is None and not fs.nullable:
                    raise Unsupported("null default on a non-nullable field")
                if tag is not None and ignorable and raw_default is None and ktype not in ("uuid",) + NUMERIC + ("bool", "error_code"):
                    # documented modelling case: kio represents such a field as `T | None = None` (absent <=> None) instead of
                    # Kafka's empty/zero default; accepted as is, in the versions where the field is tagged - and only there
                    if ktype == "records":
                        raise Unsupported("tagged records")
                    fs.nullable = True
                    fs.default = None
                if tag is not None and def_nullable and raw_default is None:
                    # (without any default the generated `T | None` field has no default and kio cannot derive one)
                    raise Unsupported("tagged nullable field without default")
                if tag is not None and def_nullable and raw_default != "null" and ktype != "string":
                    raise Unsupported("tagged nullable non-string field with a non-null default (the generator has no spelling for bytes defaults)")
                if tag is not None and ktype == "records":
                    raise Unsupported("tagged records")
                if tag is not None and ktype == "uuid" and not ignorable:
                    # kio models uuid as `UUID | None` and requires an explicit None default for optional tagged fields, which the
                    # generator only emits for ignorable ones (all attested tagged uuid fields are ignorable)
                    raise Unsupported("tagged uuid that is not ignorable")
            et = f.get("entityType")
            if et is not None:
                if et not in ENTITY_TYPE_BASE or ENTITY_TYPE_BASE[et] != base:
                    raise Unsupported("entityType with an unexpected base type")
                self.custom[f"{owner}.{fs.name}"] = et[0].upper() + et[1:]
            return fs
        # struct or array of struct
        if "fields" in f:
            sub = self.struct(base, f["fields"])
        elif base in self.common:
            cs = self.common[base]
            if not in_range(cs["versions"], v):
                raise Unsupported("common struct not valid in this version")
            sub = self.struct(base, cs["fields"])
        else:
            raise Unsupported(f"unknown type {base}")
        fs = FieldSpec(name=snake(raw_name), kind="struct", ktype=None, nullable=def_nullable, array=array, item_nullable=False, tag=tag,
                       default=NO_DEFAULT, struct=sub)
        if raw_default == "null":
            if not def_nullable:
                raise Unsupported("null default on non-nullable struct")
            fs.default = None
        elif raw_default is not None:
            raise Unsupported("struct default")
        if tag is not None and def_nullable and ((array and raw_default is not None) or (not array and raw_default != "null")):
            # a tagged nullable struct with default null is a recombination of attested constructs (tagged struct, nullable struct,
            # tagged nullable string with default null) and the generator emits `T | None = None` for it; nullable tagged struct
            # *arrays* and a tagged nullable struct without default have no derivable default in kio
            raise Unsupported("tagged nullable struct array / tagged nullable struct without default null")
        if tag is not None and not array and not def_nullable:
            why = _unresolvable(sub)
            if why:
                raise Unsupported("tagged struct without a resolvable default: " + why)
        return fs


def _unresolvable(spec: StructSpec) -> str | None:
    """kio documents that a tagged struct needs a default for each nested field that is nullable or an array
    (tests/serial/test_implicit_defaults.py); definitions that would need more are outside the subset."""
    for g in spec.fields:
        if g.default is not NO_DEFAULT:
            continue
        if g.array:
            if g.kind == "struct" and g.tag is None:
                return f"{g.name} is an array without default"
            continue  # primitive arrays and tagged arrays always get ()
        if g.nullable:
            return f"{g.name} is nullable without default"
        if g.kind == "struct":
            why = _unresolvable(g.struct)
            if why:
                return why
        elif g.ktype == "records":
            return f"{g.name} is a records field"
    return None


def interpret(defn: dict, version: int) -> ModuleExpectation:
    vr = parse_range(defn["validVersions"])
    if vr is None or not vr[0] <= version <= vr[1]:
        raise Unsupported("version outside validVersions")
    ctx = _Ctx(defn, version)
    top = ctx.struct(defn["name"], defn["fields"])
    api = api_name(defn)
    return ModuleExpectation(
        module=f"kio.schema.{api}.v{version}.{defn['type']}", api=api, version=version, type=defn["type"], flexible=ctx.flexible,
        api_key=defn.get("apiKey") if defn["type"] in ("request", "response") else None, header=header_for(defn, version),
        top=top.name, classes=ctx.classes, custom_types=ctx.custom,
    )


def versions_of(defn: dict) -> list[int]:
    lo, hi = parse_range(defn["validVersions"])
    return list(range(lo, int(hi) + 1))


# ---------------------------------------------------------------------------------------
# comparing an expectation with a live class description


def compare_spec(exp: StructSpec, live: StructSpec, where: str) -> list[tuple[str, str]]:
    """Returns [(kind, message)]; kind 'D6' marks the known generator finding's exact shape."""
    from .refcodec import trees_equal

    out: list[tuple[str, str]] = []
    en, ln = [f.name for f in exp.fields], [f.name for f in live.fields]
    if en != ln:
        out.append(("fields", f"{where}: fields {ln} != expected {en}"))
        return out
    if exp.flexible != live.flexible:
        out.append(("flexible", f"{where}: __flexible__ {live.flexible} != expected {exp.flexible}"))
    for e, l in zip(exp.fields, live.fields):
        w = f"{where}.{e.name}"
        if (e.kind, e.ktype, e.array) != (l.kind, l.ktype, l.array):
            out.append(("type", f"{w}: {l.kind}/{l.ktype}/array={l.array} != expected {e.kind}/{e.ktype}/array={e.array}"))
            continue
        if e.tag != l.tag:
            out.append(("tag", f"{w}: tag {l.tag} != expected {e.tag}"))
        d6 = e.kind == "prim" and e.array and e.nullable and not l.nullable
        if d6:
            if trees_equal(l.effective_default(), []):
                out.append(("D6", f"{w}: nullable primitive array generated as non-nullable with default ()"))
            else:
                out.append(("nullable", f"{w}: nullable primitive array generated as non-nullable"))
            continue
        if e.nullable != l.nullable and not e.nullable_optional:
            out.append(("nullable", f"{w}: nullable={l.nullable} != expected {e.nullable}"))
        if e.item_nullable != l.item_nullable:
            out.append(("item-nullable", f"{w}: item_nullable={l.item_nullable} != expected {e.item_nullable}"))
        if e.legacy_string != l.legacy_string:
            out.append(("legacy-string", f"{w}: legacy client id special case differs"))
        if e.kind == "struct":
            if e.struct.name != l.struct.name:
                out.append(("struct-name", f"{w}: struct {l.struct.name} != expected {e.struct.name}"))
                continue
        try:
            same = trees_equal(e.effective_default(), l.effective_default())
        except Exception as exc:  # noqa: BLE001
            same = False
            out.append(("default", f"{w}: default not comparable: {exc!r}"))
            continue
        if not same:
            out.append(("default", f"{w}: effective default {l.effective_default()!r} != expected {e.effective_default()!r}"))
    return out
