"""Message-definition engine: pinned definitions, scratch trees for the *real* generator,
live-object dumps of a schema package, an independent interpreter of the definition format,
and generators (mutated / random) of definitions.
"""
from __future__ import annotations

import ast
import json
import zlib
import os
import pathlib
import re
import shutil
import subprocess
import sys
import tempfile

from . import common

PINS = common.VERIF / "pins"
PIN_DEFS = PINS / "kafka-3.9.0"
BUILD_TAG = "3.9.0"
ALWAYS = ("RequestHeader.json", "ResponseHeader.json", "MetadataRequest.json", "MetadataResponse.json")


def pinned_definitions() -> dict[str, dict]:
    return {p.name: json.loads(p.read_text()) for p in sorted(PIN_DEFS.glob("*.json"))}


# ---------------------------------------------------------------------------------------
# scratch tree


DRIVER = r"""
import os, sys, random, pathlib, io, contextlib
seed = os.environ.get("KV_SHUFFLE_SEED")
if seed is not None:
    _orig_glob = pathlib.Path.glob
    def _glob(self, pattern, **kw):
        items = sorted(_orig_glob(self, pattern, **kw))
        random.Random(int(seed)).shuffle(items)
        return iter(items)
    pathlib.Path.glob = _glob
sys.argv = ["codegen", "error-codes.txt"]
steps = os.environ.get("KV_STEPS", "recreate,errors,schema,index").split(",")
out = io.StringIO()
with contextlib.redirect_stdout(out), contextlib.redirect_stderr(out):
    if "recreate" in steps:
        from codegen import recreate_schema_path
        recreate_schema_path.main()
    if "errors" in steps:
        from codegen import generate_error_codes
        generate_error_codes.main()
    if "schema" in steps:
        from codegen import generate_schema
        generate_schema.main()
    if "index" in steps:
        from codegen import generate_index
        generate_index.main()
"""


class Scratch:
    """A throw-away copy of the generator and the non-generated part of kio from the *current
    working tree*, with a given set of definitions.  Always removed by close()."""

    def __init__(self, definitions: dict[str, dict], error_codes_text: str | None = None) -> None:
        base = os.environ.get("TMPDIR", "/tmp")
        self.root = pathlib.Path(tempfile.mkdtemp(prefix="kv-scratch-", dir=base))
        ig = shutil.ignore_patterns("__pycache__", "*.pyc")
        shutil.copytree(common.REPO / "codegen", self.root / "codegen", ignore=ig)
        (self.root / "src").mkdir()

        def ignore_kio(d: str, names: list[str]) -> list[str]:
            out = [n for n in names if n == "__pycache__" or n.endswith(".pyc")]
            if os.path.realpath(d) == os.path.realpath(common.KIO_DIR):
                out.append("schema")
            return out

        shutil.copytree(common.REPO_SRC / "kio", self.root / "src" / "kio", ignore=ignore_kio)
        sdir = self.root / "schema" / BUILD_TAG
        sdir.mkdir(parents=True)
        for name, d in definitions.items():
            (sdir / name).write_text(upstream_layout(d, name))
        (self.root / "error-codes.txt").write_text(error_codes_text if error_codes_text is not None else (PINS / "error-codes.txt").read_text())
        self.schema_dir = self.root / "src" / "kio" / "schema"

    def env(self) -> dict[str, str]:
        e = dict(os.environ)
        e["PYTHONPATH"] = f"{self.root / 'src'}{os.pathsep}{self.root}{os.pathsep}{common.VERIF}"
        e["PYTHONHASHSEED"] = "0"
        e["PYTHONDONTWRITEBYTECODE"] = "1"
        return e

    def generate(self, shuffle_seed: int | None = None, steps: str = "recreate,errors,schema,index", timeout: float = 600) -> subprocess.CompletedProcess:
        env = self.env()
        env["KV_STEPS"] = steps
        if shuffle_seed is not None:
            env["KV_SHUFFLE_SEED"] = str(shuffle_seed)
        return subprocess.run([sys.executable, "-c", DRIVER], cwd=str(self.root), env=env, capture_output=True, text=True, timeout=timeout)

    def run_python(self, code: str, timeout: float = 600) -> subprocess.CompletedProcess:
        return subprocess.run([sys.executable, "-c", code], cwd=str(self.root), env=self.env(), capture_output=True, text=True, timeout=timeout)

    def close(self) -> None:
        shutil.rmtree(self.root, ignore_errors=True)

    def __enter__(self) -> "Scratch":
        return self

    def __exit__(self, *a: object) -> None:
        self.close()


_LICENCE = """// Licensed to the Apache Software Foundation (ASF) under one or more
// contributor license agreements.  See the NOTICE file distributed with
// this work for additional information regarding copyright ownership.
//
//    http://www.apache.org/licenses/LICENSE-2.0
"""


def upstream_layout(d: dict, name: str) -> str:
    """The text of a definition file as upstream writes them: JSON with `//` comment lines - a licence header at column 0 and indented
    notes between keys and between field objects (every real definition has both).  Every other file gets them; the rest is plain JSON."""
    text = json.dumps(d, indent=2) + "\n"
    if zlib.crc32(name.encode()) % 2:
        return text
    out = [_LICENCE.rstrip("\n"), ""]
    opened = 0
    for k, line in enumerate(text.splitlines()):
        stripped = line.lstrip()
        indent = line[: len(line) - len(stripped)]
        if stripped.startswith('"validVersions"'):
            out.append(indent + "// Version 1 is the same as version 0.")
            out.append(indent + "//")
            out.append(indent + "// Version 2 adds a field (\"quoted\", with a backslash \\ and a brace }).")
        elif stripped == "{" and k > 0:
            opened += 1
            if opened % 2:
                out.append(indent + "// a note between field objects")
        out.append(line)
    return "\n".join(out) + "\n"


# ---------------------------------------------------------------------------------------
# static comparison: normalised AST per class / per module


def class_dumps(path: pathlib.Path) -> dict[str, str]:
    tree = ast.parse(path.read_text())
    out = {}
    for node in tree.body:
        if isinstance(node, ast.ClassDef):
            out[node.name] = ast.dump(node, include_attributes=False)
        elif isinstance(node, ast.Assign) and len(node.targets) == 1 and isinstance(node.targets[0], ast.Name):
            out["=" + node.targets[0].id] = ast.dump(node.value, include_attributes=False)
    return out


def module_dump(path: pathlib.Path) -> str:
    return ast.dump(ast.parse(path.read_text()), include_attributes=False)


def init_exports(path: pathlib.Path) -> tuple:
    tree = ast.parse(path.read_text())
    imports, all_ = [], None
    for node in tree.body:
        if isinstance(node, ast.ImportFrom):
            imports += [(node.level, node.module, a.name, a.asname) for a in node.names]
        elif isinstance(node, ast.Assign) and getattr(node.targets[0], "id", None) == "__all__":
            all_ = ast.dump(node.value, include_attributes=False)
    return (tuple(sorted(imports, key=str)), all_)


def py_files(root: pathlib.Path) -> dict[str, pathlib.Path]:
    return {str(p.relative_to(root)): p for p in sorted(root.rglob("*.py")) if "__pycache__" not in p.parts}


# ---------------------------------------------------------------------------------------
# dynamic comparison: live-object dump of a schema package (run in a subprocess)

DUMP = r"""
import dataclasses, importlib, json, pkgutil, sys, enum
import kio.schema
out = {"modules": {}, "errors": [], "index": {}, "types": {}}
def tname(t):
    return repr(t)
for info in pkgutil.walk_packages(kio.schema.__path__, "kio.schema."):
    if info.ispkg:
        continue
    try:
        mod = importlib.import_module(info.name)
    except BaseException as exc:
        out["modules"][info.name] = {"IMPORT-ERROR": repr(exc)}
        continue
    if info.name == "kio.schema.errors":
        out["errors"] = [[e.name, int(e), bool(e.retriable), e.__doc__ if e.__doc__ != type(e).__doc__ else None] for e in mod.ErrorCode]
        continue
    if info.name == "kio.schema.index":
        out["index"] = {"api_key_map": {str(k): v for k, v in mod.api_key_map.items()},
                        "schema_name_map": {a: {str(v): {t.name: p for t, p in tm.items()} for v, tm in vm.items()} for a, vm in mod.schema_name_map.items()}}
        continue
    if info.name == "kio.schema.types":
        for k, v in vars(mod).items():
            if isinstance(v, type) and v.__module__ == info.name:
                out["types"][k] = [b.__module__ + "." + b.__name__ for b in v.__bases__]
            elif hasattr(v, "__supertype__"):
                out["types"][k] = ["NewType", repr(v.__supertype__)]
        continue
    classes = {}
    for k, v in vars(mod).items():
        if isinstance(v, type) and v.__module__ == info.name and dataclasses.is_dataclass(v):
            p = v.__dataclass_params__
            d = {"params": {"frozen": p.frozen, "eq": p.eq, "order": p.order, "slots": "__slots__" in vars(v), "unsafe_hash": p.unsafe_hash},
                 "order": list(vars(mod)).index(k), "fields": [], "classvars": {}}
            for name in ("__type__", "__version__", "__flexible__", "__api_key__", "__header_schema__"):
                if hasattr(v, name):
                    x = getattr(v, name)
                    d["classvars"][name] = (x.__module__ + ":" + x.__qualname__) if isinstance(x, type) else (x.name if isinstance(x, enum.Enum) else repr(x))
            for f in dataclasses.fields(v):
                d["fields"].append({"name": f.name, "type": tname(f.type), "metadata": {k2: repr(v2) for k2, v2 in f.metadata.items()},
                                    "default": None if f.default is dataclasses.MISSING else repr(f.default), "has_default": f.default is not dataclasses.MISSING,
                                    "default_factory": f.default_factory is not dataclasses.MISSING, "kw_only": f.kw_only, "init": f.init, "compare": f.compare, "hash": f.hash, "repr": f.repr})
            classes[k] = d
    out["modules"][info.name] = {"classes": classes, "doc": mod.__doc__, "exports": sorted(k for k in vars(mod) if not k.startswith("_"))[:0]}
json.dump(out, open(sys.argv[1], "w"))
"""


def dump_package(pythonpath: str, out_file: str, timeout: float = 600) -> subprocess.CompletedProcess:
    env = dict(os.environ)
    env["PYTHONPATH"] = pythonpath
    env["PYTHONHASHSEED"] = "0"
    return subprocess.run([sys.executable, "-c", DUMP, out_file], env=env, capture_output=True, text=True, timeout=timeout, cwd="/")
