"""Generators of message definitions for C16: mutations of the pinned definitions and a random grammar.

Every produced definition is meant to lie in the supported subset (DESIGN.md 5.10); the
independent interpreter is the judge (``interpret`` raising ``Unsupported`` drops it).
Each definition carries ``_constructs``: the list of constructs it exercises (for the evidence
histogram) and ``_origin``.
"""
from __future__ import annotations

import copy
import keyword
import random

from . import interpret

WORDS = ("Topic", "Partition", "Broker", "Leader", "Epoch", "Offset", "Group", "Member", "Config", "Entry", "Result", "State", "Quota", "Token", "Scram",
         "ISR", "ID", "Id", "Type", "V3", "And", "Below", "Log", "Dir", "Replica", "Assignment", "Metadata", "Session", "Name", "Value", "Key", "Count",
         "Max", "Min", "Filter", "Hash", "Format", "Input", "URL", "ACL", "Kip", "X2", "Data", "Info", "List", "Set", "Map", "Resource", "Pattern")
PRIM_TYPES = ("bool", "int8", "int16", "int32", "int64", "uint16", "uint32", "uint64", "float64", "string", "bytes", "uuid", "records")
# error-code names, every duration name the generator knows - each with BOTH integer widths (the width comes from the declared type, not from
# the name) - and the timestamp names (int64 only)
_DURATIONS = ("timeoutMs", "TimeoutMs", "ThrottleTimeMs", "MaxWaitMs", "SessionLifetimeMs", "TransactionTimeoutMs", "MaxLifetimeMs", "SessionTimeoutMs",
              "RebalanceTimeoutMs", "ExpiryTimePeriodMs", "RenewPeriodMs", "RetentionTimeMs", "HeartbeatIntervalMs", "PushIntervalMs")
SPECIAL = ((("ErrorCode", "int16"), ("PartitionErrorCode", "int16")) * 4 + tuple((n, w) for n in _DURATIONS for w in ("int32", "int64"))
           + tuple((n, "int64") for n in ("IssueTimestampMs", "ExpiryTimestampMs", "MaxTimestampMs", "TransactionStartTimeMs", "LogAppendTimeMs")) * 2)
ENTITY = (("brokerId", "int32"), ("producerId", "int64"), ("groupId", "string"), ("topicName", "string"), ("transactionalId", "string"))


# names a generated module imports or defines itself: a struct (or field) of that name would shadow them - not something a well-formed
# definition does, and not what C16 is about
RESERVED_NAMES = frozenset({"BrokerId", "ProducerId", "GroupId", "TopicName", "TransactionalId", "EntityType", "ErrorCode", "Records", "TZAware", "ClassVar",
                            "RequestHeader", "ResponseHeader", "Final", "Field", "Uuid", "Datetime"})


def _name(rng: random.Random, used: set[str], nwords: tuple[int, int] = (1, 3)) -> str:
    for _ in range(200):
        n = "".join(rng.choice(WORDS) for _ in range(rng.randint(*nwords)))
        sn = interpret.snake(n)
        if len(n) >= 2 and not n.endswith("Ms") and n not in used and not keyword.iskeyword(sn) and n not in interpret.ERROR_CODE_NAMES and n not in RESERVED_NAMES \
                and not sn.endswith(("_request", "_response")) and sn not in used:
            used.add(n)
            used.add(sn)
            return n
    raise RuntimeError("name space exhausted")


def _default_for(rng: random.Random, typ: str, nullable: bool) -> tuple[object, str] | None:
    """A definition default in one of the accepted spellings, or None for no default."""
    r = rng.random()
    if r < 0.45:
        return None
    if nullable and r < 0.6:
        return "null", "default:null"
    if typ in ("int8", "int16", "int32", "int64", "uint16", "uint32", "uint64"):
        lo = 0 if typ.startswith("u") else -(2 ** (int(typ.lstrip("uint")) - 1))
        hi = 2 ** (int(typ.lstrip("uint")) - (0 if typ.startswith("u") else 1)) - 1
        v = rng.choice((0, 1, -1 if lo < 0 else 2, lo, hi, rng.randint(lo, hi)))
        spelling = rng.choice(("dec", "hex" if v >= 0 else "dec", "json-number"))
        # (upstream reads `default` as a string and Jackson coerces JSON numbers / literals, so 5, true and "TRUE" are accepted spellings)
        return (hex(v) if spelling == "hex" else v if spelling == "json-number" else str(v)), f"default:int:{spelling}"
    if typ == "bool":
        d = rng.choice(("true", "false", "true", "false", "True", "False", "TRUE", "FALSE", True, False))
        return d, "default:bool" + ("" if d in ("true", "false") else ":json-literal" if isinstance(d, bool) else ":other-case")
    if typ == "float64":
        d = rng.choice(("0.0", "1.5", "-2.25", "1e10", "0", 1.5, -2.25, 0))
        return d, "default:float" + ("" if isinstance(d, str) else ":json-number")
    if typ == "string":
        d = rng.choice(("", "foo", "a b", "it's", "ü", "PLAIN", "DefaultGroup", "Mixed Case 1", "TRUE", "0x1F", "null ",
                        "\U00020bb7\u91ce\u5bb6", "emoji \U0001f600", 'q"uote', "back\\slash", "tab\there", "{braces} %s"))
        return d, "default:string" + (":special-characters" if not d.isascii() or any(c in d for c in '"\\\t{%') else "")
    return None


def random_field(rng: random.Random, used: set[str], versions: list[int], flex_from: int | None, depth: int, tags: set[int], constructs: list[str],
                 common: dict[str, dict], type_names: set[str] | None = None) -> dict:
    f = _random_field(rng, used, versions, flex_from, depth, tags, constructs, common, type_names)
    if f.pop("_drop_versions", False) and f.get("versions") == f.get("taggedVersions") and f.get("nullableVersions", f["versions"]) == f["versions"]:
        # upstream (3.5+) leaves `versions` out for fields that only ever exist tagged: it then defaults to taggedVersions
        f.pop("versions")
        constructs.append("taggedVersions:without-versions")
    return f


def _random_field(rng: random.Random, used: set[str], versions: list[int], flex_from: int | None, depth: int, tags: set[int], constructs: list[str],
                  common: dict[str, dict], type_names: set[str] | None = None) -> dict:
    type_names = set() if type_names is None else type_names
    lo = rng.choice(versions)
    hi_candidates = [v for v in versions if v >= lo]
    kind = rng.random()
    last = versions[-1]
    f: dict = {}
    # versions spelling
    r = rng.random()
    if r < 0.55:
        f["versions"] = f"{versions[0]}+"
        fv = list(versions)
        constructs.append("versions:N+")
    elif r < 0.8:
        f["versions"] = f"{lo}+"
        fv = [v for v in versions if v >= lo]
        constructs.append("versions:N+")
    elif r < 0.93:
        hi = rng.choice(hi_candidates)
        f["versions"] = f"{lo}-{hi}" if hi != lo else f"{lo}"
        fv = [v for v in versions if lo <= v <= hi]
        constructs.append("versions:N-M" if hi != lo else "versions:N")
    else:
        f["versions"] = f"{lo}"
        fv = [lo]
        constructs.append("versions:N")
    flexible_fv = [v for v in fv if flex_from is not None and v >= flex_from]
    can_tag = bool(flexible_fv) and rng.random() < 0.3
    if kind < 0.12:
        name, typ = rng.choice(SPECIAL)
        attr = interpret.snake(name.removesuffix("Ms"))  # (the generator drops the Ms suffix: TimeoutMs and timeoutMs are the same attribute)
        if name in used or attr in used or interpret.snake(name) in used:
            name, typ = _name(rng, used), "int32"
        else:
            used.update((name, attr, interpret.snake(name)))
            constructs.append("special-name:" + ("error" if "ErrorCode" in name else "time"))
        f.update(name=name, type=typ)
        if name in interpret.DATETIME_NAMES and rng.random() < 0.5:
            f["default"] = "-1"
            constructs.append("default:datetime-null")
        elif "ErrorCode" not in name and name not in interpret.DATETIME_NAMES and rng.random() < 0.4:
            f["default"] = rng.choice(("0", "-1", "30000"))
            constructs.append("default:timedelta")
        can_tag = can_tag and name not in interpret.DATETIME_NAMES
        if can_tag:
            _tag(rng, f, fv, flexible_fv, flex_from, tags, constructs, last)
            if "default" not in f and rng.random() < 0.5:
                f["ignorable"] = True
        return f
    if kind < 0.62 or depth >= 3:
        typ = rng.choice(PRIM_TYPES)
        array = rng.random() < 0.2 and typ not in ("records",)
        f.update(name=_name(rng, used), type=("[]" if array else "") + typ)
        constructs.append(("array:" if array else "prim:") + typ)
        nullable_ok = typ in ("string", "bytes", "records") or array
        nullable = False
        if nullable_ok and rng.random() < 0.4:
            sub = rng.choice(fv)
            f["nullableVersions"] = rng.choice((f["versions"], f"{sub}+"))
            nullable = True
            constructs.append("nullableVersions" + (":prim-array" if array else ""))
        if not array:
            d = _default_for(rng, typ, nullable and f.get("nullableVersions") == f["versions"])
            if d is not None and typ not in ("uuid", "bytes", "records"):
                f["default"], c = d
                constructs.append(c)
            if typ in ("int32", "int64", "string") and rng.random() < 0.15:
                et = rng.choice([e for e in ENTITY if e[1] == typ])
                f["entityType"] = et[0]
                constructs.append("entityType")
        elif nullable and rng.random() < 0.3 and f.get("nullableVersions") == f["versions"]:
            f["default"] = "null"
            constructs.append("default:null")
        if rng.random() < 0.15 and not array:
            f["ignorable"] = True  # (has no effect on an untagged field; combined with an explicit default on a tagged one it must not change anything)
            constructs.append("ignorable" + (":with-default" if "default" in f else ""))
        if can_tag and typ != "records":
            _tag(rng, f, fv, flexible_fv, flex_from, tags, constructs, last)
            if not array and "nullableVersions" not in f and typ in ("string", "bool", "float64") + interpret.NUMERIC[:-1] and rng.random() < 0.3:
                # falsy explicit defaults ("" / 0 / false / 0.0) together with ignorable on a tagged field: `if default:` style slips
                f["default"] = {"string": "", "bool": "false", "float64": "0.0"}.get(typ, rng.choice(("0", "0x0")))
                f["ignorable"] = True
                constructs.append("tagged:ignorable-falsy-default")
            tagged_nullable = "nullableVersions" in f and not array
            if tagged_nullable:
                # tagged nullable => nullable in every tagged version with default null
                f["nullableVersions"] = f["versions"]
                if typ == "string" and rng.random() < 0.35:
                    f["default"] = rng.choice(("x", "none", "Null-ish", "0"))  # nullable, tagged, non-null default: null must be sent explicitly
                    constructs.append("tagged:nullable-with-non-null-default")
                else:
                    f["default"] = "null"
                    constructs.append("default:null")
            elif "default" not in f and not array and typ in ("uuid", "bool", "string", "bytes") + interpret.NUMERIC and rng.random() < 0.6:
                f["ignorable"] = True
                constructs.append("tagged:ignorable-no-default")
            elif "default" not in f and not array and typ in ("string", "bytes"):
                # without a default kio cannot resolve nothing here? (it can: implicit default "" / b"")
                pass
        return f
    # struct-valued
    array = rng.random() < 0.7
    use_common = common and rng.random() < 0.3
    if use_common:
        cname = rng.choice(sorted(common))
        f.update(name=_name(rng, used), type=("[]" if array else "") + cname)
        constructs.append("common-struct-ref" + (":nested" if depth > 1 else ""))
    else:
        sname = _name(rng, type_names, (2, 3))
        sub_tags: set[int] = set()
        sub_used: set[str] = set()
        nf = rng.randint(1, 5)
        f.update(name=_name(rng, used), type=("[]" if array else "") + sname,
                 fields=[random_field(rng, sub_used, fv, flex_from, depth + 1, sub_tags, constructs,
                                      {k: c for k, c in common.items() if interpret.parse_range(c["versions"])[0] <= fv[0]} if rng.random() < 0.5 else {}, type_names)
                         for _ in range(nf)])
        if not any(interpret.in_range(g.get("versions", g.get("taggedVersions")), v) for g in f["fields"] for v in fv):
            f["fields"][0]["versions"] = f["versions"]
            f["fields"][0].pop("taggedVersions", None)
            f["fields"][0].pop("tag", None)
            f["fields"][0].pop("nullableVersions", None)
            if f["fields"][0].get("default") == "null":
                f["fields"][0].pop("default")
        constructs.append("array-of-struct" if array else "struct")
    if rng.random() < 0.3:
        f["nullableVersions"] = f["versions"]
        constructs.append("nullableVersions:" + ("struct-array" if array else "struct"))
        if not array and rng.random() < 0.5:
            f["default"] = "null"
            constructs.append("default:null")
    if can_tag and "nullableVersions" not in f and not use_common:
        _tag(rng, f, fv, flexible_fv, flex_from, tags, constructs, last)
        constructs.append("tagged:" + ("struct-array" if array else "struct"))
    elif can_tag and "nullableVersions" not in f and use_common and rng.random() < 0.5:
        # a tagged field whose type is a common struct (single or array)
        _tag(rng, f, fv, flexible_fv, flex_from, tags, constructs, last)
        constructs.append("tagged:common-struct" + ("-array" if array else ""))
    elif can_tag and "nullableVersions" in f and array and "default" not in f and not use_common and rng.random() < 0.6:
        # tagged nullable struct array without default: the default is the empty array, null has to be sent explicitly; nullable in only
        # some of the versions half of the time
        _tag(rng, f, fv, flexible_fv, flex_from, tags, constructs, last)
        if rng.random() < 0.5 and len(fv) > 1:
            f["nullableVersions"] = f"{fv[-1]}+"
        constructs.append("tagged:nullable-struct-array")
    elif can_tag and "nullableVersions" in f and not array and not use_common and rng.random() < 0.6:
        # tagged nullable struct: nullable wherever it is tagged, default null (the presence marker travels inside the tagged payload)
        _tag(rng, f, fv, flexible_fv, flex_from, tags, constructs, last)
        f["nullableVersions"] = f["versions"]
        f["default"] = "null"
        constructs.append("tagged:nullable-struct")
    return f


def _tag(rng: random.Random, f: dict, fv: list[int], flexible_fv: list[int], flex_from: int, tags: set[int], constructs: list[str], last: int) -> None:
    tag = next((t for t in (rng.randint(0, 6) for _ in range(40)) if t not in tags), None)
    if tag is None:
        tag = max(tags) + 1  # (all small tags taken)
    tags.add(tag)
    start = max(flex_from, fv[0])
    f["taggedVersions"] = f"{start}+"
    f["tag"] = tag
    # the field must not exist untagged in a non-flexible version and tagged later with another meaning: keep versions == taggedVersions or wider
    if rng.random() < 0.4:
        f["versions"] = f"{start}+"
    elif fv[0] < start:
        constructs.append("taggedVersions:subset-of-versions")
    constructs.append("taggedVersions")
    if f.get("versions") == f["taggedVersions"] and rng.random() < 0.3:
        f["_drop_versions"] = True  # (done when the field is complete, see random_field)


def random_definition(rng: random.Random, used_api: set[str], kind: str | None = None) -> list[dict]:
    """One definition, or a request/response pair sharing an API key."""
    kind = kind or rng.choice(("pair", "pair", "header", "data", "request"))
    nver = rng.randint(1, 6)
    lo = rng.choice((0, 0, 0, 1))
    versions = list(range(lo, lo + nver))
    r = rng.random()
    flex_from: int | None
    if r < 0.25:
        flex_from, flex_s = None, "none"
    elif r < 0.45:
        flex_from, flex_s = versions[0], f"{versions[0]}+"
    elif r < 0.9:
        flex_from = rng.choice(versions)
        flex_s = f"{flex_from}+"
    else:
        flex_from, flex_s = versions[-1] + 1, f"{versions[-1] + 1}+"  # declared but never reached
    base = _name(rng, used_api, (2, 3))
    api_key = rng.choice((7, 18, rng.randint(4, 200), rng.randint(4, 32767)))  # never 3: every scratch tree holds the pinned Metadata API
    out = []
    types = {"pair": ("request", "response"), "request": ("request",)}.get(kind, (kind,))
    for t in types:
        constructs = [f"type:{t}", f"flexibleVersions:{'none' if flex_from is None else 'N+'}", f"versions-count:{nver}"]
        used: set[str] = set()
        tags: set[int] = set()
        common: dict[str, dict] = {}
        type_names: set[str] = {base + "Request", base + "Response", base + "Hdr", base + "Data"}
        if rng.random() < 0.25:
            cname = _name(rng, type_names, (2, 3))
            cused: set[str] = set()
            common[cname] = {"name": cname, "versions": f"{versions[0]}+",
                             "fields": [dict(random_field(rng, cused, versions, flex_from, 2, set(), constructs, {}, type_names), versions=f"{versions[0]}+") for _ in range(rng.randint(1, 3))]}
            for g in common[cname]["fields"]:
                for k in ("taggedVersions", "tag", "nullableVersions", "ignorable"):
                    g.pop(k, None)
                if g.get("default") == "null":
                    g.pop("default")
            constructs.append("commonStructs")
            if rng.random() < 0.6:
                # a second common struct that holds an array of (or a single) first one - declared before or after the one it refers to
                # (upstream: AddPartitionsToTxnResponse declares TopicResult, which refers to PartitionResult, first)
                outer = _name(rng, type_names, (2, 3))
                oused: set[str] = set()
                common[outer] = {"name": outer, "versions": f"{versions[0]}+", "fields": [
                    {"versions": f"{versions[0]}+", "name": _name(rng, oused), "type": rng.choice(("int32", "string", "int64"))},
                    {"versions": f"{versions[0]}+", "name": _name(rng, oused), "type": rng.choice(("[]", "[]", "")) + cname}]}
                if rng.random() < 0.5:
                    common = {outer: common[outer], cname: common[cname]}  # forward reference: the referring struct comes first
                    constructs.append("commonStructs:forward-reference")
                else:
                    constructs.append("commonStructs:backward-reference")
        fields = [random_field(rng, used, versions, flex_from, 1, tags, constructs, common, type_names) for _ in range(rng.randint(0 if t != "header" else 1, 8))]
        if common and rng.random() < 0.7:
            # make sure a common struct is referenced from two different parents of the same version (the layout upstream uses when a
            # message is restructured: e.g. AddPartitionsToTxn references one struct from the top level and from a nested one)
            cname = sorted(common)[0]
            allv = f"{versions[0]}+"
            fields.append({"versions": allv, "name": _name(rng, used), "type": "[]" + cname})
            inner_used: set[str] = set()
            fields.append({"versions": allv, "name": _name(rng, used), "type": "[]" + _name(rng, type_names, (2, 3)), "fields": [
                {"versions": allv, "name": _name(rng, inner_used), "type": "int32"},
                {"versions": allv, "name": _name(rng, inner_used), "type": rng.choice(("", "[]")) + cname}]})
            constructs.append("common-struct:two-parents")
        name = base + {"request": "Request", "response": "Response", "header": "Hdr", "data": "Data"}[t]
        d: dict = {}
        if t in ("request", "response"):
            d["apiKey"] = api_key
            if api_key in (7, 18):
                constructs.append(f"apiKey:{api_key}")
        d.update(type=t, name=name, validVersions=f"{versions[0]}-{versions[-1]}" if nver > 1 else f"{versions[0]}", flexibleVersions=flex_s, fields=fields)
        if common:
            d["commonStructs"] = list(common.values())
        d["_constructs"] = constructs
        d["_origin"] = "random grammar"
        out.append(d)
    return out


# ---------------------------------------------------------------------------------------
# mutations of pinned definitions


def _all_fields(fields: list[dict], depth: int = 0):  # noqa: ANN202
    for f in fields:
        yield f, fields, depth
        if "fields" in f:
            yield from _all_fields(f["fields"], depth + 1)


def mutate(rng: random.Random, defn: dict, nmut: int = 2) -> dict:
    d = copy.deepcopy(defn)
    constructs: list[str] = []
    lo, hi = interpret.parse_range(d["validVersions"])
    hi = int(hi)
    for _ in range(nmut):
        flex = interpret.parse_range(d["flexibleVersions"])
        allf = list(_all_fields(d["fields"])) + [x for c in d.get("commonStructs", []) for x in _all_fields(c["fields"])]
        m = rng.choice(("extend-versions", "shrink-versions", "flexible", "nullable", "tag", "default", "retype", "add-field", "remove-field", "api-key", "rename", "split-range"))
        if m == "extend-versions":
            hi += 1
            d["validVersions"] = f"{lo}-{hi}"
        elif m == "shrink-versions" and hi > lo:
            hi -= 1
            d["validVersions"] = f"{lo}-{hi}" if hi > lo else f"{lo}"
        elif m == "flexible":
            tagged_lo = [interpret.parse_range(f["taggedVersions"])[0] for f, _, _ in allf if "taggedVersions" in f]
            limit = min(tagged_lo) if tagged_lo else hi + 1
            choice = rng.choice(("none", lo, rng.randint(lo, hi), hi))
            if choice == "none":
                if tagged_lo:
                    continue
                d["flexibleVersions"] = "none"
            else:
                d["flexibleVersions"] = f"{min(choice, limit)}+"
        elif m == "nullable" and allf:
            f, _, _ = rng.choice(allf)
            base = f["type"].removeprefix("[]")
            if "taggedVersions" in f or f["name"] in interpret.DATETIME_NAMES | interpret.TIMEDELTA_NAMES | interpret.ERROR_CODE_NAMES:
                continue
            if f["type"].startswith("[]") or base in ("string", "bytes", "records") or base not in interpret.PRIMS:
                if "nullableVersions" in f:
                    f.pop("nullableVersions")
                    if f.get("default") == "null":
                        f.pop("default")
                    constructs.append("mut:drop-nullable")
                else:
                    flo = interpret.parse_range(f.get("versions", f.get("taggedVersions")))[0]
                    f["nullableVersions"] = f"{rng.randint(flo, max(flo, hi))}+"
                    constructs.append("mut:add-nullable" + (":prim-array" if f["type"].startswith("[]") and base in interpret.PRIMS else ""))
        elif m == "tag" and allf and flex is not None:
            f, siblings, _ = rng.choice(allf)
            base = f["type"].removeprefix("[]")
            if "taggedVersions" in f:
                used = {g.get("tag") for g in siblings}
                f["tag"] = next(t for t in range(0, 40) if t not in used)
                constructs.append("mut:renumber-tag")
            elif base in interpret.NUMERIC + ("bool",) and not f["type"].startswith("[]") and "nullableVersions" not in f \
                    and f["name"] not in interpret.DATETIME_NAMES:
                used = {g.get("tag") for g in siblings}
                start = max(int(flex[0]), interpret.parse_range(f["versions"])[0])
                f["taggedVersions"] = f"{start}+"
                f["versions"] = f"{start}+"
                f["tag"] = next(t for t in range(0, 40) if t not in used)
                if "default" not in f:
                    f["ignorable"] = True
                constructs.append("mut:make-tagged")
        elif m == "default" and allf:
            f, _, _ = rng.choice(allf)
            base = f["type"]
            if base.startswith("[]") or base not in interpret.PRIMS or f["name"] in interpret.DATETIME_NAMES | interpret.ERROR_CODE_NAMES:
                continue  # (an error-code default must be a known code; left alone)
            if f["name"] in interpret.TIMEDELTA_NAMES:
                f["default"] = rng.choice(("0", "-1", "30000", "0x1", "0x7fffffff"))  # inside every duration type's domain
                constructs.append("mut:default:timedelta")
                continue
            if "default" in f and rng.random() < 0.5:
                if f["default"] == "null" or f.get("ignorable"):
                    continue
                f.pop("default")
                constructs.append("mut:drop-default")
            else:
                dd = _default_for(rng, base, False)
                if dd is not None and base not in ("uuid", "bytes", "records"):
                    f["default"], c = dd
                    constructs.append("mut:" + c)
        elif m == "retype" and allf:
            f, _, _ = rng.choice(allf)
            swaps = {"int8": "int16", "int16": "int32", "int32": "int64", "int64": "int32", "string": "bytes", "bytes": "string", "uint16": "uint32", "bool": "int8"}
            base = f["type"]
            if base in swaps and "default" not in f and "entityType" not in f and not f["name"].endswith("Ms") and f["name"] not in interpret.ERROR_CODE_NAMES:
                f["type"] = swaps[base]
                constructs.append("mut:retype")
        elif m == "add-field":
            target = rng.choice([d["fields"]] + [f["fields"] for f, _, _ in allf if "fields" in f])
            used = {g["name"] for g in target} | {interpret.snake(g["name"]) for g in target}
            tags = {g["tag"] for g in target if "tag" in g}
            taken = {f["type"].removeprefix("[]") for f, _, _ in allf} | {c["name"] for c in d.get("commonStructs", [])} | {d["name"]}
            newf = random_field(rng, used, list(range(lo, hi + 1)), None if flex is None else int(flex[0]), 2, tags, constructs, {}, taken)
            target.insert(rng.randrange(len(target) + 1), newf)
            constructs.append("mut:add-field")
        elif m == "remove-field" and len(d["fields"]) > 1:
            d["fields"].pop(rng.randrange(len(d["fields"])))
            constructs.append("mut:remove-field")
        elif m == "api-key" and "apiKey" in d:
            d["apiKey"] = rng.choice((7, 18, rng.randint(4, 500)))
            constructs.append(f"mut:apiKey:{d['apiKey'] if d['apiKey'] in (7, 18) else 'other'}")
        elif m == "rename" and allf:
            f, siblings, _ = rng.choice(allf)
            if f["name"].endswith("Ms") or f["name"] in interpret.ERROR_CODE_NAMES:
                continue
            used = {g["name"] for g in siblings} | {interpret.snake(g["name"]) for g in siblings}
            f["name"] = _name(rng, used)
            constructs.append("mut:rename")
        elif m == "split-range" and allf:
            f, _, _ = rng.choice(allf)
            r = interpret.parse_range(f.get("versions", "0+"))
            if "taggedVersions" in f or r is None:
                continue
            a = int(r[0])
            b = hi if r[1] == float("inf") else int(r[1])
            if b > a:
                f["versions"] = f"{a}-{rng.randint(a, b - 1)}"
                if "nullableVersions" in f:
                    f.pop("nullableVersions")
                    if f.get("default") == "null":
                        f.pop("default")
                constructs.append("mut:split-range")
    # a distinct API name, so that several mutants (and the pinned original) can share a scratch tree
    suffix = "".join(rng.choice("ABCDEFGHJKLMNPQRSTUVWXYZ") + rng.choice("abcdefghijkmnopqrstuvwxyz") for _ in range(3))
    base = d["name"]
    for t in ("Request", "Response"):
        if base.endswith(t):
            d["name"] = base[: -len(t)] + "Mut" + suffix + t
            break
    else:
        d["name"] = base + "Mut" + suffix
    d["_constructs"] = [f"type:{d['type']}", "origin:mutated-pin"] + constructs
    d["_origin"] = f"mutation of pinned {defn['name']}"
    return d


def strip_private(d: dict) -> dict:
    return {k: v for k, v in d.items() if not k.startswith("_")}
