"""Deterministic baton scheduler for real threads, driven by sys.monitoring LINE events.

Worker threads are real ``threading.Thread``s, but only the baton holder runs.  A LINE
callback restricted to kio/serial/* and kio/_utils.py is the yield point; preemptions
happen at *d* indices drawn uniformly from the horizon (the number of yield points a
run of this workload produces), PCT-style, so a schedule is replayable from
``(seed, d, horizon)`` and summarised by its switch sequence.
"""
from __future__ import annotations

import hashlib
import os
import random
import sys
import threading

from . import common

mon = sys.monitoring
TOOL = 3


class Schedule:
    def __init__(self, seed: int, nthreads: int, d: int, horizon: int, at: set[int] | None = None) -> None:
        self.rng = random.Random(seed)
        self.n = nthreads
        self.at = set(at) if at is not None else set(self.rng.sample(range(1, max(horizon, d + 1) + 1), d)) if d else set()
        self.events = [threading.Event() for _ in range(nthreads)]
        self.alive = [True] * nthreads
        self.cur = 0
        self.points = 0
        self.trace: list[tuple] = []
        self.tid: dict[int, int] = {}
        self.lines: set[tuple[str, int]] = set()
        self.lock = threading.Lock()

    # called from the LINE callback in the running thread
    def yield_point(self, code, line: int) -> None:  # noqa: ANN001
        me = self.tid.get(threading.get_ident())
        if me is None or me != self.cur:
            return
        self.points += 1
        if self.points in self.at:
            others = [i for i in range(self.n) if self.alive[i] and i != me]
            if others:
                nxt = self.rng.choice(others)
                fname = os.path.basename(code.co_filename)
                self.trace.append((me, fname, line, nxt))
                self.lines.add((fname, line))
                self._switch(me, nxt)

    def _switch(self, me: int, nxt: int) -> None:
        self.cur = nxt
        self.events[me].clear()
        self.events[nxt].set()
        self.events[me].wait()

    def finish(self, me: int) -> None:
        self.alive[me] = False
        others = [i for i in range(self.n) if self.alive[i]]
        if others and self.cur == me:
            nxt = others[0]
            self.cur = nxt
            self.events[nxt].set()

    def signature(self) -> str:
        return hashlib.sha256(repr(self.trace).encode()).hexdigest()[:16]


class Scheduler:
    """Owns the sys.monitoring tool; run() executes one schedule of thread bodies."""

    def __init__(self, prefixes: tuple[str, ...] | None = None, exclude: tuple[str, ...] = ()) -> None:
        self.prefixes = prefixes or (os.path.join(common.KIO_DIR, "serial") + os.sep, os.path.join(common.KIO_DIR, "_utils.py"))
        self.exclude = exclude
        self.current: Schedule | None = None
        self.started = False

    def _on_line(self, code, line):  # noqa: ANN001, ANN202
        fn = code.co_filename
        if not fn.startswith(self.prefixes) or (self.exclude and fn.startswith(self.exclude)):
            return mon.DISABLE
        s = self.current
        if s is not None:
            s.yield_point(code, line)
        return None

    def start(self) -> None:
        if self.started:
            return
        if mon.get_tool(TOOL) is None:
            mon.use_tool_id(TOOL, "kv-sched")
        mon.register_callback(TOOL, mon.events.LINE, self._on_line)
        self.started = True

    def stop(self) -> None:
        if not self.started:
            return
        mon.set_events(TOOL, 0)
        mon.register_callback(TOOL, mon.events.LINE, None)
        mon.free_tool_id(TOOL)
        self.started = False

    def run(self, bodies: list, seed: int, d: int, horizon: int, join_timeout: float = 20.0, at: set[int] | None = None) -> tuple[Schedule, bool]:
        """bodies: list of zero-argument callables, one per thread. Returns (schedule, completed).  `at` fixes the preemption points."""
        n = len(bodies)
        s = Schedule(seed, n, d, horizon, at)
        self.current = s

        def worker(i: int) -> None:
            s.tid[threading.get_ident()] = i
            s.events[i].wait()
            try:
                bodies[i]()
            finally:
                s.finish(i)

        threads = [threading.Thread(target=worker, args=(i,), daemon=True) for i in range(n)]
        mon.set_events(TOOL, mon.events.LINE)
        mon.restart_events()
        try:
            for t in threads:
                t.start()
            s.events[0].set()
            done = True
            for t in threads:
                t.join(join_timeout)
                if t.is_alive():
                    done = False
        finally:
            mon.set_events(TOOL, 0)
            self.current = None
        if not done:
            for e in s.events:  # let stragglers go so that the process can end
                e.set()
        return s, done
