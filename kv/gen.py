"""Seeded generator of neutral trees with choice cells and boundary pools.

Two domains:
  * "canonical": the values an in-range kio instance can hold (C01/C02/C06/C07/C15/C19)
  * "wire":      everything a conforming peer may put on the wire (C03/C05): adds NaN/inf
                 floats and, on request, unknown tagged fields and explicitly sent defaults.
"""
from __future__ import annotations

import random
import struct as _struct

from .describe import FieldSpec, StructSpec
from .refcodec import int_range, trees_equal

TD64_MIN = -86399999913600000  # timedelta.min in ms
TD64_MAX = 86399999913599999  # (timedelta.max - 1 day) in ms, kio's documented upper limit
DT_MAX = 253402300799999  # 9999-12-31T23:59:59.999Z in ms
STR_LENGTHS_SMALL = (0, 1, 2, 5, 126, 127, 128, 254, 255, 256)
STR_LENGTHS_BIG = (16383, 16384, 32767)  # 32767 = the most a legacy (int16-length) string can hold
BYTES_LENGTHS_HUGE = (65537, 1048577, 2097152)  # beyond typical chunking thresholds (64 KiB, 1 MiB); 2^21: the compact length needs a 4-byte varint
BIG_LABELS = tuple(f"len{n}" for n in STR_LENGTHS_BIG + BYTES_LENGTHS_HUGE)
ARRAY_BOUNDARY_CELLS = ("n127", "n128")  # compact array length varint goes from one to two bytes
CHARS = ("a", "z", "0", " ", "é", "ß", "€", "한", "𝄞", "😀", "\x00", "\x7f",
         "\ufeff", "A", "Z", "\n", "\t", "\r", "e\u0301", "\u00a0", "\u2028")  # BOM / ZWNBSP, upper case, control white space, a non-NFC sequence, NBSP, LS

_error_codes: list[int] | None = None


def error_codes() -> list[int]:
    """The error codes of Kafka 3.9.0 - from the pinned table (pins/error-codes.txt), not from the enum of the tree under test: which codes
    a conforming peer may send is not for kio to say."""
    global _error_codes
    if _error_codes is None:
        from . import common

        try:
            _error_codes = sorted(int(ln.split()[0]) for ln in (common.VERIF / "pins" / "error-codes.txt").read_text().splitlines() if ln.strip())
        except (OSError, ValueError):
            from kio.schema.errors import ErrorCode

            _error_codes = sorted(int(e) for e in ErrorCode)
    return _error_codes


def set_error_codes(codes: list[int]) -> None:
    global _error_codes
    _error_codes = sorted(codes)


def utf8_of_length(rng: random.Random, n: int) -> str:
    """A string whose UTF-8 encoding is exactly n bytes, mixing 1-4 byte characters."""
    if n > 512:
        if rng.random() < 0.3:
            return "topic-" + "a" * (n - 6)  # pure ASCII
        # cheap construction for big strings: a multi-byte body and ASCII padding
        body = "€" * ((n - rng.randrange(0, 3)) // 3)
        used = len(body.encode())
        return body + "x" * (n - used)
    r = rng.random()
    if r < 0.25:
        # one content class only: all ASCII (what topic names, group ids and host names are), all two-, three- or four-byte characters
        return "".join(rng.choice("abcdefghijklmnopqrstuvwxyzABCXYZ-_.0123456789") for _ in range(n))
    if r < 0.32:
        width, ch = rng.choice(((2, "é"), (3, "€"), (4, "😀")))
        return ch * (n // width) + "x" * (n % width)
    out = []
    left = n
    lead = ""
    if n >= 3 and rng.random() < 0.15:
        lead, left = "\ufeff", n - 3  # a string that *starts* with U+FEFF (utf-8-sig style decoding drops it)
    while left > 0:
        c = rng.choice(CHARS)
        w = len(c.encode())
        if w > left:
            c = "a"
            w = 1
        out.append(c)
        left -= w
    rng.shuffle(out)
    return lead + "".join(out)


def pool_size(ktype: str, domain: str) -> int:
    return len(_pool_labels(ktype, domain))


def _pool_labels(ktype: str, domain: str) -> list[str]:
    if ktype in ("int8", "int16", "int32", "int64", "uint8", "uint16", "uint32", "uint64"):
        return ["lo", "hi", "lo+1", "hi-1", "0", "1", "neg1_or_2", "rand", "pow2"]
    if ktype == "float64":
        base = ["0.0", "-0.0", "1.5", "-big", "subnormal", "max", "rand"]
        return base + (["nan", "nan_payload", "inf", "-inf"] if domain == "wire" else [])
    if ktype == "bool":
        return ["false", "true"]
    if ktype == "error_code":
        return ["first", "last", "zero", "rand"]
    if ktype == "timedelta_i32":
        return ["lo", "hi", "0", "1", "-1", "rand"]
    if ktype == "timedelta_i64":
        return ["0", "1", "-1", "2^53+1", "-(2^53+1)", "lo", "hi", "rand", "rand_big"]
    if ktype == "datetime_i64":
        return ["0", "1", "999", "1000", "broker", "max", "rand", "rand_s", "dst_fold", "y2038"]
    if ktype == "uuid":
        return ["rand", "one", "ff"]
    if ktype == "string":
        return [f"len{n}" for n in STR_LENGTHS_SMALL + STR_LENGTHS_BIG] + ["ascii"]
    if ktype in ("bytes", "records"):
        return [f"len{n}" for n in STR_LENGTHS_SMALL + STR_LENGTHS_BIG + BYTES_LENGTHS_HUGE] + ["rand"]
    raise NotImplementedError(ktype)


def pool_value(rng: random.Random, ktype: str, label: str) -> object:
    if ktype in ("int8", "int16", "int32", "int64", "uint8", "uint16", "uint32", "uint64"):
        lo, hi = int_range(ktype)
        return {
            "lo": lo, "hi": hi, "lo+1": lo + 1, "hi-1": hi - 1, "0": 0, "1": 1,
            "neg1_or_2": -1 if lo < 0 else 2, "rand": rng.randint(lo, hi),
            # a power of two or its neighbour, either sign: where a narrower intermediate type or a byte-length boundary would show
            "pow2": min(hi, max(lo, (1 if lo == 0 else rng.choice((1, -1))) * ((1 << rng.randrange(1, hi.bit_length() + 1)) + rng.choice((-1, 0, 1))))),
        }[label]
    if ktype == "float64":
        if label == "rand":
            return _struct.unpack(">d", _struct.pack(">Q", rng.getrandbits(64) & 0x7FEFFFFFFFFFFFFF | (rng.getrandbits(1) << 63)))[0]
        if label == "nan_payload":
            return _struct.unpack(">d", _struct.pack(">Q", 0x7FF8000000000000 | rng.getrandbits(51) | 1))[0]
        return {
            "0.0": 0.0, "-0.0": -0.0, "1.5": 1.5, "-big": -2.25e300, "subnormal": 5e-324,
            "max": 1.7976931348623157e308, "nan": float("nan"), "inf": float("inf"), "-inf": float("-inf"),
        }[label]
    if ktype == "bool":
        return label == "true"
    if ktype == "error_code":
        codes = error_codes()
        return {"first": codes[0], "last": codes[-1], "zero": 0, "rand": rng.choice(codes)}[label]
    if ktype == "timedelta_i32":
        return {"lo": -(2**31), "hi": 2**31 - 1, "0": 0, "1": 1, "-1": -1, "rand": rng.randint(-(2**31), 2**31 - 1)}[label]
    if ktype == "timedelta_i64":
        return {
            "0": 0, "1": 1, "-1": -1, "2^53+1": 2**53 + 1, "-(2^53+1)": -(2**53) - 1, "lo": TD64_MIN, "hi": TD64_MAX,
            "rand": rng.randint(-(2**40), 2**40), "rand_big": rng.randint(TD64_MIN, TD64_MAX),
        }[label]
    if ktype == "datetime_i64":
        return {
            "0": 0, "1": 1, "999": 999, "1000": 1000, "broker": 1503229838908, "max": DT_MAX,
            "rand": rng.randint(0, DT_MAX), "rand_s": 1000 * rng.randint(0, DT_MAX // 1000),
            # within an hour of the end of daylight saving time 2021 in Europe (01:00 UTC) / the US (06:00 UTC): expressed in such a zone
            # the wall-clock time is ambiguous (PEP 495 fold), which must not matter anywhere
            "dst_fold": rng.choice((1635642000000, 1636264800000)) + rng.randint(-3599999, 3599999),
            "y2038": rng.choice((2**31, 2**32)) * 1000 + rng.choice((-1001, -1000, -1, 0, 1, 999, 1000)),  # where 32-bit seconds run out
        }[label]
    if ktype == "uuid":
        if label == "rand":
            return rng.randbytes(16) or b"\x01" * 16
        return b"\x00" * 15 + b"\x01" if label == "one" else b"\xff" * 16
    if ktype == "string":
        if label == "ascii":
            return "".join(rng.choice("abcdefghijklmnopqrstuvwxyz-_.0123456789") for _ in range(rng.randint(1, 24)))
        return utf8_of_length(rng, int(label[3:]))
    if ktype in ("bytes", "records"):
        if label == "rand":
            return rng.randbytes(rng.randint(1, 40))
        return rng.randbytes(int(label[3:]))
    raise NotImplementedError(ktype)


_INTS = ("int8", "int16", "int32", "int64", "uint8", "uint16", "uint32", "uint64")
_HASH_M = 2**61 - 1  # CPython hashes ints modulo this prime; and hash(-1) == hash(-2)


def near_values(fs: FieldSpec, d: object) -> list:
    """Values of fs's type that differ minimally from d (a default): +-1, the other boolean, one more/less character - and integers
    that are *different but hash-equal* in CPython (d +- (2^61-1); -2 for -1).  A comparison with the default that is off by one,
    goes through hash(), str(), truthiness or a lossy normalisation tells these apart from the default wrongly."""
    kt = fs.ktype
    out: list = []
    if kt in _INTS or kt in ("timedelta_i32", "timedelta_i64", "datetime_i64"):
        if not isinstance(d, int) or isinstance(d, bool):
            return []
        lo, hi = int_range(kt) if kt in _INTS else {"timedelta_i32": (-(2**31), 2**31 - 1), "timedelta_i64": (TD64_MIN, TD64_MAX), "datetime_i64": (0, DT_MAX)}[kt]
        cand = [d - 1, d + 1, d + _HASH_M, d - _HASH_M] + ([-2] if d == -1 else []) + ([-1] if d == -2 else [])
        out = [v for v in cand if lo <= v <= hi and v != d]
    elif kt == "float64":
        out = [d + 1.5, -d] if isinstance(d, float) and d == d and abs(d) < 1e300 and d != 0 else [1.5] if d == 0 else []
    elif kt == "bool":
        out = [not d] if isinstance(d, bool) else []
    elif kt == "error_code":
        codes = set(error_codes())
        out = [v for v in (d - 1, d + 1) if isinstance(d, int) and v in codes]
    elif kt == "string":
        if isinstance(d, str):
            out = [d + "x"] + ([d[:-1]] if d else []) + ([d.swapcase()] if d.swapcase() != d else [])
    elif kt in ("bytes", "records"):
        if isinstance(d, bytes):
            out = [d + b"x"] + ([d[:-1]] if d else [])
    return out


def type_zero_tree(spec: StructSpec) -> dict | None:
    """The struct whose every member holds the zero value of its *type* (0, "", false, empty array, ...), whatever the members' declared
    defaults are: what a default derived from types alone would be.  None when some member has no such value."""
    out: dict = {}
    for m in spec.fields:
        if m.array:
            out[m.name] = []
        elif m.kind == "struct":
            sub = type_zero_tree(m.struct) if m.struct is not None else None
            if sub is None:
                return None
            out[m.name] = sub
        elif m.ktype in _INTS or m.ktype in ("timedelta_i32", "timedelta_i64", "datetime_i64", "error_code"):
            out[m.name] = 0
        elif m.ktype == "float64":
            out[m.name] = 0.0
        elif m.ktype == "bool":
            out[m.name] = False
        elif m.ktype == "string":
            out[m.name] = ""
        elif m.ktype in ("bytes", "records"):
            out[m.name] = b""
        elif m.ktype == "uuid":
            out[m.name] = None
        else:
            return None
    return out


def near_default_cells(fs: FieldSpec) -> list[str]:
    if fs.tag is None or fs.array:
        return []
    d = fs.effective_default()
    if fs.kind == "struct":
        if not isinstance(d, dict) or fs.struct is None:
            return []
        zero = type_zero_tree(fs.struct)
        return [f"nds:{m.name}:{k}" for m in fs.struct.fields if m.kind == "prim" and not m.array and m.name in d for k in range(len(near_values(m, d[m.name])))] + \
            (["ndz"] if zero is not None and not trees_equal(zero, d) else [])
    return [f"nd:{k}" for k in range(len(near_values(fs, d)))]


class Gen:
    def __init__(self, rng: random.Random, domain: str = "canonical", unknown_tags: bool = False,
                 max_items: int = 4, big_prob: float = 0.01, long_arrays: bool = True) -> None:
        assert domain in ("canonical", "wire")
        self.rng = rng
        self.domain = domain
        self.unknown_tags = unknown_tags
        self.max_items = max_items
        self.big_prob = big_prob
        self.long_arrays = long_arrays  # include the 16383-item cell of primitive arrays
        self._lean = 0  # > 0 while generating the items of a long array: nested arrays stay short, payloads small
        self.cells_hit: set[tuple[str, str, str]] = set()
        self.stats = {"unknown_tags": 0, "explicit_defaults": 0, "nondefault_tags": 0, "unknown_by_depth": {}}

    # ----- cells ------------------------------------------------------------------
    def cells(self, fs: FieldSpec) -> list[str]:
        if fs.array:
            out = ["empty", "one", "many"] + list(ARRAY_BOUNDARY_CELLS) + (["n1024", "n2048", "n16383", "n70000"] if fs.kind == "prim" and self.long_arrays else []) + (["null"] if fs.nullable else [])
        elif fs.kind == "struct":
            out = ["value"] + (["null"] if fs.nullable else [])
        else:
            out = ["p:" + lab for lab in _pool_labels(fs.ktype, self.domain)]
            if fs.nullable or fs.ktype == "uuid":
                out.append("null")
        if fs.tag is not None:
            out.append("default")
            out += near_default_cells(fs)
        return out

    def _small_label(self, ktype: str) -> str:
        labs = _pool_labels(ktype, self.domain)
        if ktype in ("string", "bytes", "records"):
            if self._lean or self.rng.random() >= self.big_prob:
                labs = [lab for lab in labs if lab not in BIG_LABELS]
            else:
                labs = [lab for lab in labs if lab not in ("len1048577", "len2097152")]
        return self.rng.choice(labs)

    def prim(self, fs: FieldSpec, label: str | None = None, allow_null: bool = True) -> object:
        nullable = fs.nullable or fs.item_nullable or fs.ktype == "uuid"
        if label is None:
            if nullable and allow_null and self.rng.random() < 0.2:
                return None
            label = self._small_label(fs.ktype)
        return pool_value(self.rng, fs.ktype, label)

    def _item(self, fs: FieldSpec, depth: int) -> object:
        if fs.kind == "struct":
            return self.struct(fs.struct, depth + 1)
        nullable_item = fs.item_nullable or fs.ktype == "uuid"
        return self.prim(fs, allow_null=nullable_item) if nullable_item else self.prim(fs, allow_null=False)

    def _count(self, depth: int) -> int:
        hi = max(2, self.max_items - depth)
        return self.rng.randint(2, hi)

    def realise(self, fs: FieldSpec, cell: str, depth: int) -> object:
        if cell == "default":
            return _copy_tree(fs.effective_default())
        if cell == "null":
            return None
        if cell.startswith("nd:"):
            return near_values(fs, fs.effective_default())[int(cell[3:])]
        if cell == "ndz":
            return type_zero_tree(fs.struct)
        if cell.startswith("nds:"):
            _, member, k = cell.split(":")
            tree = _copy_tree(fs.effective_default())
            tree[member] = near_values(fs.struct.field(member), tree[member])[int(k)]
            return tree
        if fs.array:
            if cell in ("empty", "one", "many"):
                n = {"empty": 0, "one": 1, "many": self._count(depth)}[cell]
                return [self._item(fs, depth) for _ in range(n)]
            self._lean += 1
            try:
                return [self._item(fs, depth) for _ in range(int(cell[1:]))]
            finally:
                self._lean -= 1
        if fs.kind == "struct":
            return self.struct(fs.struct, depth + 1)
        return self.prim(fs, cell[2:])

    def random_cell(self, fs: FieldSpec, depth: int) -> str:
        cells = self.cells(fs)
        if fs.array:
            long_ok = depth == 0 and not self._lean and self.rng.random() < 0.04
            cells = [c for c in cells if not (c[0] == "n" and c[1:].isdigit()) or (long_ok and int(c[1:]) <= 128)]  # (longer ones only as forced each-choice cells)
            if self._lean:
                cells = [c for c in cells if c != "many"]
        if fs.array and depth >= 3:
            cells = [c for c in cells if c != "many"]
        if fs.kind == "prim" and not fs.array:
            # weight null and default like one pool entry each; pool entries via _small_label
            r = self.rng.random()
            if "null" in cells and r < 0.15:
                return "null"
            if "default" in cells and r > 0.75:
                return "default"
            near = [c for c in cells if c.startswith("nd:")]
            if near and r > 0.62:
                return self.rng.choice(near)
            return "p:" + self._small_label(fs.ktype)
        return self.rng.choice(cells)

    # ----- structs -----------------------------------------------------------------
    def struct(self, spec: StructSpec, depth: int = 0, forced: dict[str, str] | None = None) -> dict:
        tree: dict = {}
        for fs in spec.fields:
            cell = forced[fs.name] if forced and fs.name in forced else self.random_cell(fs, depth)
            tree[fs.name] = self.realise(fs, cell, depth)
            self.cells_hit.add((spec.name, fs.name, cell))
            if fs.tag is not None and not trees_equal(tree[fs.name], fs.effective_default()):
                self.stats["nondefault_tags"] += 1
        if self.domain == "wire" and spec.flexible:
            self._wire_extras(spec, tree, depth)
        return tree

    def _wire_extras(self, spec: StructSpec, tree: dict, depth: int, force_unknown: bool = False) -> None:
        explicit = [
            fs.name for fs in spec.tagged
            if trees_equal(tree[fs.name], fs.effective_default()) and self.rng.random() < 0.5
            and _explicit_encodable(fs)
        ]
        if explicit:
            tree["$explicit"] = explicit
            self.stats["explicit_defaults"] += len(explicit)
        if self.unknown_tags and (force_unknown or self.rng.random() < 0.35):
            tree["$unknown"] = self.unknown_for(spec)
            n = len(tree["$unknown"])
            self.stats["unknown_tags"] += n
            d = self.stats["unknown_by_depth"]
            d[str(depth)] = d.get(str(depth), 0) + n

    def unknown_for(self, spec: StructSpec, n: int | None = None) -> list[tuple[int, bytes]]:
        known = {fs.tag for fs in spec.tagged}
        top = max(known) if known else -1
        candidates = [t for t in range(0, top + 4) if t not in known]
        candidates += [127, 128, 129, 255, 16383, 16384, 2**21, 2**28, 2**31 - 1]
        candidates = sorted(set(t for t in candidates if t not in known))
        if n is None:
            n = self.rng.randint(1, 3)
            if self.rng.random() < 0.03:
                n = self.rng.choice((8, 33, 127, 128, 200))  # the count itself grows to a two-byte varint at 128
        if n > len(candidates):
            candidates += [t for t in range(1000, 1000 + 2 * n, 2) if t not in known]
        tags = self.rng.sample(candidates, min(n, len(candidates)))
        out = []
        for t in tags:
            size = self.rng.choice((0, 1, 2, 127, 128, 300, self.rng.randint(0, 40)))
            if self.rng.random() < 0.04:
                size = self.rng.choice((8193, 10240, 16384, 65537))  # beyond typical chunk sizes; 16384 needs a three-byte size varint
            out.append((t, self.rng.randbytes(size)))
        return out

    def all_tags_nondefault(self, spec: StructSpec) -> dict | None:
        """A tree in which every tagged field of spec holds a non-default value (so that every one of them travels on the wire); None when
        spec has no tagged field."""
        forced = {}
        for fs in spec.tagged:
            cells = self.cells(fs)
            near = [c for c in cells if c.startswith(("nd:", "nds:", "ndz"))]
            if fs.array:
                forced[fs.name] = "one"
            elif near:
                forced[fs.name] = self.rng.choice(near)
            elif fs.kind == "struct":
                forced[fs.name] = "value"
            else:
                d = fs.effective_default()
                ok = [c for c in cells if c.startswith("p:") and c[2:] not in BIG_LABELS and not trees_equal(pool_value(random.Random(0), fs.ktype, c[2:]), d)]
                if ok:
                    forced[fs.name] = self.rng.choice(ok)
        return self.struct(spec, 0, forced) if forced else None

    # ----- each-choice coverage --------------------------------------------------------
    def each_choice(self, spec: StructSpec, extra_random: int = 2) -> list[dict]:
        """Trees that together hit every (field, cell) of spec's own fields at least once."""
        per = {fs.name: self.cells(fs) for fs in spec.fields}
        n = max([len(c) for c in per.values()] + [1])
        offs = {name: self.rng.randrange(len(c)) for name, c in per.items()}
        out = []
        for i in range(n):
            forced = {name: c[(i + offs[name]) % len(c)] for name, c in per.items()}
            out.append(self.struct(spec, 0, forced))
        for _ in range(extra_random):
            out.append(self.struct(spec, 0))
        return out

    def huge_payload_trees(self, spec: StructSpec, label: str = "len65537") -> list[dict]:
        """One tree per direct bytes/records field with a payload beyond typical chunking thresholds."""
        out = []
        for fs in spec.fields:
            if fs.kind == "prim" and fs.ktype in ("bytes", "records") and not fs.array:
                tree = self.struct(spec)
                tree[fs.name] = pool_value(self.rng, fs.ktype, label)
                self.cells_hit.add((spec.name, fs.name, "p:" + label))
                out.append(tree)
        return out

    def total_cells(self, spec: StructSpec) -> int:
        return sum(len(self.cells(fs)) for fs in spec.fields)

    # ----- C03: all presence patterns of a class's own tagged fields ------------------------
    def presence_patterns(self, spec: StructSpec, limit: int = 243) -> list[dict]:
        tagged = spec.tagged
        if not tagged or not spec.flexible:
            return []
        out = []
        states = ("absent", "nondefault", "explicit")
        total = 3 ** len(tagged)
        idxs = range(total) if total <= limit else sorted(self.rng.sample(range(total), limit))
        for idx in idxs:
            tree = self.struct(spec, 0)
            tree.pop("$explicit", None)
            explicit = []
            k = idx
            for fs in tagged:
                st = states[k % 3]
                k //= 3
                if st == "absent" or (st == "explicit" and not _explicit_encodable(fs)):
                    tree[fs.name] = _copy_tree(fs.effective_default())
                elif st == "explicit":
                    tree[fs.name] = _copy_tree(fs.effective_default())
                    explicit.append(fs.name)
                else:
                    tree[fs.name] = self.nondefault(fs)
            if explicit:
                tree["$explicit"] = explicit
                self.stats["explicit_defaults"] += len(explicit)
            out.append(tree)
        return out

    def nondefault(self, fs: FieldSpec, depth: int = 0) -> object:
        d = fs.effective_default()
        for _ in range(50):
            cell = self.random_cell(fs, depth)
            if cell in ("default",):
                continue
            v = self.realise(fs, cell, depth)
            if not trees_equal(v, d):
                self.stats["nondefault_tags"] += 1
                return v
        raise RuntimeError(f"cannot find a non-default value for {fs.name}")


def _explicit_encodable(fs: FieldSpec) -> bool:
    """Can the default be put on the wire?  (null for a type without a wire null cannot.)"""
    d = fs.effective_default()
    if d is None and not fs.array:
        if fs.kind == "struct":
            return False  # tagged nullable structs: not attested, not generated
        return fs.ktype in ("string", "bytes", "records", "uuid", "datetime_i64")
    return True


def _copy_tree(t: object) -> object:
    if isinstance(t, dict):
        return {k: _copy_tree(v) for k, v in t.items()}
    if isinstance(t, list):
        return [_copy_tree(v) for v in t]
    return t


def tree_size(t: object) -> int:
    if isinstance(t, dict):
        return 1 + sum(tree_size(v) for v in t.values())
    if isinstance(t, list):
        return 1 + sum(tree_size(v) for v in t)
    return 1


def is_nontrivial(spec: StructSpec, tree: dict) -> bool:
    """At least one field holds something other than the zero/empty/default value."""
    for fs in spec.fields:
        v = tree.get(fs.name)
        if v in (None, 0, "", b"", False, 0.0) or v == []:
            continue
        if fs.tag is not None and trees_equal(v, fs.effective_default()):
            continue
        return True
    return bool(tree.get("$unknown") or tree.get("$explicit"))


def tree_in_wire_domain(spec: StructSpec, tree: dict) -> bool:
    """Is every leaf of a (reference-decoded) tree inside the in-range wire domain of DESIGN.md 5.1?"""
    for fs in spec.fields:
        v = tree.get(fs.name)
        items = v if (fs.array and v is not None) else [v]
        for x in items:
            if x is None:
                continue
            if fs.kind == "struct":
                if not tree_in_wire_domain(fs.struct, x):
                    return False
            elif fs.ktype == "error_code":
                if x not in error_codes():
                    return False
            elif fs.ktype == "datetime_i64":
                if not 0 <= x <= DT_MAX:
                    return False
            elif fs.ktype == "timedelta_i64":
                if not TD64_MIN <= x <= TD64_MAX:
                    return False
            elif fs.ktype == "float64":
                if x != x:
                    return False  # NaN payloads are C05's business (== cannot compare them)
    return True
