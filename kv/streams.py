"""Instrumented sinks and sources: the I/O boundary where kio is observed."""
from __future__ import annotations


class ForeignAccess(Exception):
    pass


class WriteOnlySink:
    """Exposes ``write`` only.  Any other attribute access is recorded (and raises)."""

    __slots__ = ("_chunks", "_events", "_fail_at", "_fail_exc", "_calls")

    def __init__(self, fail_at: int | None = None, fail_exc: BaseException | None = None) -> None:
        object.__setattr__(self, "_chunks", [])
        object.__setattr__(self, "_events", [])
        object.__setattr__(self, "_fail_at", fail_at)
        object.__setattr__(self, "_fail_exc", fail_exc)
        object.__setattr__(self, "_calls", 0)

    def write(self, data):  # noqa: ANN001
        k = self._calls
        object.__setattr__(self, "_calls", k + 1)
        if self._fail_at is not None and k == self._fail_at:
            raise self._fail_exc
        if not isinstance(data, (bytes, bytearray, memoryview)):
            self._events.append(("write-non-bytes", type(data).__name__))
            raise TypeError(f"a bytes-like object is required, not {type(data).__name__!r}")
        self._chunks.append(bytes(data))
        return len(data)

    def __getattr__(self, name):  # only called for attributes not found normally
        if name.startswith("_"):
            raise AttributeError(name)
        self._events.append(("getattr", name))
        raise AttributeError(f"write-only sink has no attribute {name!r}")

    def __setattr__(self, name, value):  # noqa: ANN001
        self._events.append(("setattr", name))
        raise AttributeError(name)

    # --- observer side (double underscore names are not reachable by accident) ---
    def observed_bytes(self) -> bytes:
        return b"".join(self._chunks)

    def observed_events(self) -> list:
        return list(self._events)

    def observed_calls(self) -> int:
        return self._calls


class ReadOnlySource:
    """Exposes ``read(n)`` only and records every call.

    * ``cut``: pretend the connection closed after ``cut`` bytes (EOF returns b"").
    * ``short_once``: at the cut, return the available bytes (fewer than asked), then b"".
    * ``fail_at``/``fail_exc``: raise at the k-th read call.
    * ``max_total``: bytes the source was "given"; reads beyond it are recorded as over-reads.
    """

    __slots__ = ("_data", "_pos", "_reads", "_events", "_fail_at", "_fail_exc", "_calls")

    def __init__(self, data: bytes, cut: int | None = None, fail_at: int | None = None,
                 fail_exc: BaseException | None = None) -> None:
        object.__setattr__(self, "_data", data if cut is None else data[:cut])
        object.__setattr__(self, "_pos", 0)
        object.__setattr__(self, "_reads", [])
        object.__setattr__(self, "_events", [])
        object.__setattr__(self, "_fail_at", fail_at)
        object.__setattr__(self, "_fail_exc", fail_exc)
        object.__setattr__(self, "_calls", 0)

    def read(self, n=-1):  # noqa: ANN001
        k = self._calls
        object.__setattr__(self, "_calls", k + 1)
        if self._fail_at is not None and k == self._fail_at:
            raise self._fail_exc
        if not isinstance(n, int) or isinstance(n, bool):
            self._events.append(("read-non-int", repr(n)))
            raise TypeError("read size must be int")
        if n < 0:
            self._events.append(("read-negative", n))
            n = len(self._data) - self._pos
        out = self._data[self._pos:self._pos + n]
        object.__setattr__(self, "_pos", self._pos + len(out))
        self._reads.append((n, len(out)))
        return out

    def __getattr__(self, name):
        if name.startswith("_"):
            raise AttributeError(name)
        self._events.append(("getattr", name))
        raise AttributeError(f"read-only source has no attribute {name!r}")

    def __setattr__(self, name, value):  # noqa: ANN001
        self._events.append(("setattr", name))
        raise AttributeError(name)

    def observed_position(self) -> int:
        return self._pos

    def observed_reads(self) -> list:
        return list(self._reads)

    def observed_events(self) -> list:
        return list(self._events)

    def observed_calls(self) -> int:
        return self._calls

    def observed_requested(self) -> int:
        return sum(n for n, _ in self._reads)


import io as _io


class SpyBytesIO(_io.BytesIO):
    """A genuine io.BytesIO (isinstance checks and C-level fast paths still apply) that records every use of anything other than
    plain sequential read(n) / write(b): seek, tell, getvalue, getbuffer, truncate, readinto, read1, readline, peek-like access."""

    def __init__(self, data: bytes = b"") -> None:
        super().__init__(data)
        self.spy_events: list = []

    def _note(self, name: str, *a: object) -> None:
        self.spy_events.append((name,) + tuple(a))

    def seek(self, *a):  # noqa: ANN002, ANN201
        self._note("seek", *a)
        return super().seek(*a)

    def tell(self):  # noqa: ANN201
        self._note("tell")
        return super().tell()

    def getvalue(self):  # noqa: ANN201
        self._note("getvalue")
        return super().getvalue()

    def getbuffer(self):  # noqa: ANN201
        self._note("getbuffer")
        return super().getbuffer()

    def truncate(self, *a):  # noqa: ANN002, ANN201
        self._note("truncate", *a)
        return super().truncate(*a)

    def readinto(self, b):  # noqa: ANN001, ANN201
        self._note("readinto")
        return super().readinto(b)

    def read1(self, *a):  # noqa: ANN002, ANN201
        self._note("read1", *a)
        return super().read1(*a)

    def readline(self, *a):  # noqa: ANN002, ANN201
        self._note("readline", *a)
        return super().readline(*a)

    def read(self, n=-1):  # noqa: ANN001, ANN201
        if n is None or n < 0:
            self._note("read-all", n)
        return super().read(n)

    # observer side: these do not record
    def observed_position(self) -> int:
        return _io.BytesIO.tell(self)

    def observed_bytes(self) -> bytes:
        return _io.BytesIO.getvalue(self)
