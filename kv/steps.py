"""Logical step counting with sys.monitoring (PEP 669).

Counts PY_START | PY_RESUME | PY_THROW events of code objects that live under the
working tree's ``src/kio/`` (everything else is DISABLEd on first sight) and aborts the
running call by raising ``StepBudgetExceeded`` from the callback when a budget is exceeded,
so a pathological loop is stopped and reported rather than waited for.  Also records which
kio functions ran (coverage accounting for the evidence files).
"""
from __future__ import annotations

import sys

from . import common

mon = sys.monitoring
TOOL = 4


class StepBudgetExceeded(BaseException):
    """BaseException so that no ``except Exception`` in the monitored code can swallow it."""


class Steps:
    def __init__(self) -> None:
        self.count = 0
        self.budget = 1 << 62
        self.functions: dict[str, int] = {}
        self.active = False
        self._prefix = common.KIO_DIR

    def _cb(self, code, offset):  # noqa: ANN001
        if not code.co_filename.startswith(self._prefix):
            return mon.DISABLE
        self.count += 1
        if self.count > self.budget:
            self.budget = 1 << 62  # raise once
            raise StepBudgetExceeded(f"step budget exceeded in {code.co_qualname}")
        return None

    def _cb_throw(self, code, offset, exc):  # noqa: ANN001
        if not code.co_filename.startswith(self._prefix):
            return None
        self.count += 1
        return None

    def _cb_cover(self, code, offset):  # noqa: ANN001
        if not code.co_filename.startswith(self._prefix):
            return mon.DISABLE
        key = code.co_filename[len(self._prefix) + 1:] + ":" + code.co_qualname
        self.functions[key] = self.functions.get(key, 0) + 1
        self.count += 1
        if self.count > self.budget:
            self.budget = 1 << 62
            raise StepBudgetExceeded(f"step budget exceeded in {code.co_qualname}")
        return None

    def start(self, cover: bool = False) -> None:
        if self.active:
            return
        if mon.get_tool(TOOL) is None:
            mon.use_tool_id(TOOL, "kv-steps")
        cb = self._cb_cover if cover else self._cb
        mon.register_callback(TOOL, mon.events.PY_START, cb)
        mon.register_callback(TOOL, mon.events.PY_RESUME, cb)
        mon.register_callback(TOOL, mon.events.PY_THROW, self._cb_throw)
        mon.set_events(TOOL, mon.events.PY_START | mon.events.PY_RESUME | mon.events.PY_THROW)
        mon.restart_events()
        self.active = True

    def stop(self) -> None:
        if not self.active:
            return
        mon.set_events(TOOL, 0)
        for ev in (mon.events.PY_START, mon.events.PY_RESUME, mon.events.PY_THROW):
            mon.register_callback(TOOL, ev, None)
        mon.free_tool_id(TOOL)
        self.active = False

    def arm(self, budget: int) -> None:
        self.count = 0
        self.budget = budget

    def disarm(self) -> int:
        used = self.count
        self.budget = 1 << 62
        return used
